#!/bin/bash
# tools/run_suite.sh [dir]  — the repository's pinned suite (hooks off) in dir (default /repo), retried while another
# suite on this machine holds 127.0.0.1:1234; prints the comparison with BASELINE.json.
dir="${1:-/repo}"
export GOFLAGS=-mod=mod GOPROXY=off GOSUMDB=off GOTOOLCHAIN=local
out=$(mktemp /tmp/suite-XXXX.json)
for try in $(seq 1 20); do
  (cd "$dir" && go test -json -vet=off -count=1 -timeout 25m ./... > "$out" 2>&1)
  grep -q "address already in use" "$out" || break
  sleep $((RANDOM % 20 + 5))
done
/verif/tools/baseline_compare.py "$out" | head -5
rm -f "$out"
