#!/usr/bin/env python3
"""tools/install_seed.py <ID> <slug> <property> "<what it needs to manifest>" [race]
Copies /tmp/seed/<ID>.patch.diff and demo into /verif/seeded/<property>-<slug>/ with a meta.json."""
import json, shutil, sys, os
sid, slug, prop, needs = sys.argv[1:5]
race = len(sys.argv) > 5
d = '/verif/seeded/%s-%s' % (prop, slug)
os.makedirs(d, exist_ok=True)
shutil.copy(os.environ.get('SEED_DIR','/tmp/seed') + '/%s.patch.diff' % sid, d + '/patch.diff')
shutil.copy(os.environ.get('SEED_DIR','/tmp/seed') + '/%s.demo_test.go' % sid, d + '/demo_test.go.txt')
meta = {
    "property": prop,
    "origin": "written by an independent sub-agent which saw only the property text and a scratch worktree of /repo",
    "needs_to_manifest": needs,
    "demo": "demo_test.go.txt: copy to <worktree>/seeded_demo_test.go; `go test %s-vet=off -count=1 -run TestSeededDemo .` passes on the clean tree and fails with patch.diff" % ("-race " if race else ""),
    "confirmed_by": "tools/confirm_seed.sh %s%s: demo passes clean, fails patched; pinned suite (340 stable tests) passes with the patch" % (sid, " race" if race else ""),
    "caught_by": [prop],
}
json.dump(meta, open(d + '/meta.json', 'w'), indent=1)
print(d)
