#!/opt/veriftools/pyvenv/bin/python3
"""Cross-check of the Go draft-4 reference model (harness/model/draft4.go) against python jsonschema's
Draft4Validator on generated (schema, instance) pairs.  Reads JSON lines {"schema","instance","model_valid"}
from stdin.  Pairs where the two validators are known to differ by construction are skipped:
  * multipleOf with a non-integral factor or instance (python uses float remainder; the Go model is exact),
  * numbers python would read differently (the model compares exact decimals; python floats): any number
    with more than 15 significant digits never occurs (generator bound), integers are exact in both,
  * integral floats are normalised to ints first (1.0 is the integer 1: JSON has one number type),
  * patterns using Go-only syntax (none in the generator's pool, checked here anyway).
Exit 0: every compared pair agrees (prints the counts).  Exit 1: a disagreement — the model is not trusted."""
import json, sys, re
from jsonschema import Draft4Validator

def uses_fractional_multiple(schema, inst_text):
    found = []
    def walk(s):
        if isinstance(s, dict):
            if 'multipleOf' in s:
                found.append(s['multipleOf'])
            for v in s.values():
                walk(v)
        elif isinstance(s, list):
            for v in s:
                walk(v)
    walk(schema)
    if not found:
        return False
    if any(float(m) != int(float(m)) for m in found):
        return True
    # integral factor: python is exact only for integral instances
    return bool(re.search(r'\d\.\d|[eE]', inst_text))

def go_only_pattern(schema):
    bad = []
    def walk(s):
        if isinstance(s, dict):
            p = s.get('pattern')
            if isinstance(p, str) and ('\\p{' in p or '\\z' in p or '(?P<' in p):
                bad.append(p)
            pp = s.get('patternProperties')
            if isinstance(pp, dict):
                for k in pp:
                    if '\\p{' in k:
                        bad.append(k)
            for v in s.values():
                walk(v)
        elif isinstance(s, list):
            for v in s:
                walk(v)
    walk(schema)
    return bool(bad)

def norm(x):
    """JSON has one number type: a float with a zero fraction is the integer (python's Draft4 type
    check goes by the python type, the library and the model go by the mathematical value)."""
    if isinstance(x, float) and x.is_integer() and abs(x) < 2**53:
        return int(x)
    if isinstance(x, list):
        return [norm(e) for e in x]
    if isinstance(x, dict):
        return {k: norm(v) for k, v in x.items()}
    return x

compared = skipped = 0
valid = invalid = 0
for line in sys.stdin:
    line = line.strip()
    if not line:
        continue
    rec = json.loads(line)
    schema, inst = norm(rec['schema']), norm(rec['instance'])
    raw = json.loads(line, parse_float=lambda s: s, parse_int=lambda s: s)
    inst_text = json.dumps(raw['instance'])
    if uses_fractional_multiple(schema, inst_text) or go_only_pattern(schema):
        skipped += 1
        continue
    try:
        py = Draft4Validator(schema).is_valid(inst)
    except Exception as e:  # schema python cannot handle (e.g. recursion): skip, count
        skipped += 1
        continue
    compared += 1
    if py:
        valid += 1
    else:
        invalid += 1
    if py != rec['model_valid']:
        print("MODEL-DISAGREES-WITH-PYTHON python=%s model=%s schema=%s instance=%s" % (py, rec['model_valid'], json.dumps(schema), json.dumps(inst)))
        sys.exit(1)
print("model cross-check: compared=%d agree=%d (valid=%d invalid=%d) skipped=%d" % (compared, compared, valid, invalid, skipped))
if compared < 1000:
    print("too few pairs compared")
    sys.exit(1)
