#!/usr/bin/env python3
"""Compare a `go test -json` log with /root/.vp/BASELINE.json stable_pass. exit 0 iff every stable test passed."""
import json, sys
b = json.load(open('/root/.vp/BASELINE.json'))
stable = set(b['stable_pass'])
res = {}
for l in open(sys.argv[1], errors='replace'):
    try:
        e = json.loads(l)
    except Exception:
        continue
    if e.get('Test') and e.get('Action') in ('pass', 'fail', 'skip'):
        res[e['Package'] + '::' + e['Test']] = e['Action']
missing = sorted(t for t in stable if res.get(t) != 'pass')
print('stable=%d passing=%d' % (len(stable), len(stable) - len(missing)))
for t in missing[:20]:
    print('NOT PASSING:', t, res.get(t))
sys.exit(1 if missing else 0)
