#!/bin/bash
# ./check selftest [name...]
# Sensitivity test of the monitors: every canary mutation under /verif/mutants/<PROP>-<name>.patch and every
# seeded change under /verif/seeded/<id>/patch.diff (property from meta.json) is applied to a scratch git
# worktree of /repo (outside /repo and /verif), the quick check of its property is run against that copy
# (VERIF_REPO), and the outcome is printed:  CAUGHT (exit 1 with a VIOLATION line) or MISSED.
# /repo itself is never touched.  Exit status 0 iff everything was caught.
set -u
cd "$(dirname "$(readlink -f "$0")")/.."
export GOFLAGS=-mod=mod GOPROXY=off GOSUMDB=off GOTOOLCHAIN=local
want=("$@")
rc=0
run_one() { # name patch props...
  local name="$1" patch="$2"; shift 2
  local props=("$@")
  local scratch; scratch=$(mktemp -d /tmp/verif-selftest-XXXXXX)
  rmdir "$scratch"
  if ! git -C /repo worktree add -q --detach "$scratch" HEAD 2>/dev/null; then echo "SELFTEST $name: cannot create worktree"; rc=1; return; fi
  if ! git -C "$scratch" apply "$patch" 2>/tmp/selftest-apply.$$; then
    echo "SELFTEST $name: patch does not apply: $(head -c 300 /tmp/selftest-apply.$$)"; rc=1
  else
    for prop in "${props[@]}"; do
      out=$(VERIF_REPO="$scratch" VERIF_EVIDENCE_DIR="$scratch/.evidence" ./check "$prop" quick 2>&1); code=$?
      if [ $code = 1 ] && grep -q "^VIOLATION property=$prop" <<<"$out"; then
        echo "SELFTEST $name: CAUGHT by $prop: $(grep -m1 -A1 '^VIOLATION' <<<"$out" | tail -1 | cut -c1-220)"
      else
        echo "SELFTEST $name: MISSED by $prop (exit $code): $(grep -E '^(RESULT|BROKEN)' <<<"$out" | head -2 | cut -c1-200)"; rc=1
      fi
    done
  fi
  rm -f /tmp/selftest-apply.$$
  git -C /repo worktree remove --force "$scratch" 2>/dev/null || rm -rf "$scratch"
  git -C /repo worktree prune
}
sel() { [ ${#want[@]} = 0 ] && return 0; for w in "${want[@]}"; do [[ "$1" == *"$w"* ]] && return 0; done; return 1; }
for p in mutants/*.patch; do
  [ -e "$p" ] || continue
  name=$(basename "$p" .patch); sel "$name" || continue
  prop=${name%%-*}
  run_one "$name" "$PWD/$p" $(tr '+' ' ' <<<"$prop")
done
for d in seeded/*/; do
  [ -e "$d/patch.diff" ] || continue
  name=$(basename "$d"); sel "$name" || continue
  props=$(python3 -c "import json,sys; m=json.load(open('$d/meta.json')); print(' '.join(m.get('caught_by') or [m['property']]))")
  run_one "seeded/$name" "$PWD/$d/patch.diff" $props
done
exit $rc
