#!/usr/bin/env python3
"""Regenerates /verif/MANIFEST.json from the table below (run after adding a property driver)."""
import json, os, subprocess
V = os.path.dirname(os.path.dirname(os.path.abspath(__file__)))

# id -> (category, technique, level text, level note, design ref)
CLAIMED = {
 "C01": ("exploration",
   "runtime reference-model monitor (independent draft-4 evaluator over exact rationals, run in lock-step with AgainstSchema and NewSchemaValidator on generated pairs)",
   "Every generated (schema, instance) pair is executed through both entry points of the real library and the verdict is compared online with an independent draft-4 model; deviations are attributed to a recorded finding only when the model with exactly that deviation switched on reproduces the implementation on that very case. Held on N sampled pairs, not a proof.",
   "Trusted: the reference model (self-checked against the labelled JSON-Schema suite at every start), Go regexp, the format registry handed to both sides (strfmt.Default or a caller-supplied one which disagrees with it), math/big. Sampled input space.", "DESIGN.md §4 C01"),
 "C06": ("exploration",
   "runtime crash/hang monitor (child processes, recover, log-before-run marker, bounded-progress watchdog) over degenerate schemas x hostile values x option combinations",
   "Degenerate and hostile inputs are executed through the real entry points in child processes; any panic other than the documented invalid-schema panic (cross-checked by an independent reference resolver) or a process death is a violation; non-termination is decided as bounded progress and confirmed by a solo re-run.",
   "Termination is bounded progress only; sampled input space; the documented panic is recognised by its text plus an independently detected dangling $ref.", "DESIGN.md §4 C06"),
 "C08": ("exploration",
   "runtime self-differential monitor (long-lived validator vs freshly built validator vs earlier identical call, online, per call)",
   "A validator built once is driven through random call sequences with repeats; each outcome is compared with a fresh validator and with the earlier outcome for the same value; two validators sharing one schema object alternate. Held on N sequences.",
   "The library itself (fresh validator) is the oracle; message sets compared as sorted multisets; sampled sequences.", "DESIGN.md §4 C08"),
 "C12": ("exploration",
   "runtime snapshot monitor (deep snapshot before, reflect.DeepEqual + JSON text after) around every call",
   "Inputs are snapshotted by an independent second decoding before each call and compared afterwards; covers instances, $ref-free schemas with defaults, typed slices for parameter/header validators, raw bytes and parsed specification of accepted documents.",
   "Mutations invisible to both DeepEqual and JSON text are not seen; the inputs of the last 64 recycling calls are compared again after every later case (a write through an alias kept by a pooled validator happens during a later call); instances also decoded with UseNumber; sampled input space.", "DESIGN.md §4 C12"),
 "C13": ("exploration",
   "runtime reference-model monitor (exact rational arithmetic vs helpers / parameter+header validators / AgainstSchema, every Go carrier of the same value)",
   "Each (value, carrier, constraint, entry point) tuple is executed on the real code and compared with exact arithmetic; one value is pushed through every exactly-representing carrier and must get one verdict. Deviations are attributed to a recorded finding only when its exact emulation reproduces the implementation.",
   "math/big is trusted; domain restricted to +-2^53 constraints as the property says; sampled.", "DESIGN.md §4 C13"),
 "C16": ("exploration",
   "runtime reference-model monitor (independent simple-schema model over typed Go values vs NewParamValidator/NewHeaderValidator, recycling off and on)",
   "Generated simple-schema definitions x typed Go values of every width are validated by the real validators and by an independent model; verdicts compared online; recorded findings matched by exact emulation only.",
   "Model in harness/model/simple.go is trusted; nil elements and named types outside the compared domain ([]uint8 slices and empty header strings are inside and meet recorded findings); sampled.", "DESIGN.md §4 C16"),
 "C17": ("exploration",
   "runtime structural oracle on results + single-fault location differential",
   "The error value / Result of real validations is inspected online for well-formedness (nil or 422 composite, message sets equal, no duplicates, names extend the root); separately one fault is planted at a known location and a field-level error with exactly that name is demanded.",
   "Location accuracy only for properties/patternProperties/additionalProperties/tuple items and the first element beyond a tuple, with dot-free names, as the property states; sampled.", "DESIGN.md §4 C17"),
 "C20": ("exploration",
   "runtime model-based monitor (ordered-set model stepped in lock-step with the real Result over random operation sequences, all results compared after every step)",
   "Random sequences of the public Result operations run on the real type and on an ordered-set model; every result is compared with its model after every step, so loss, duplication, reordering, count drift and aliasing through operands are caught at the step they occur.",
   "Only the exported API on the results; pooled operands come from the verif hook VerifBorrowResult and are given back by the merge (ownership automaton and poison on); messages compared by text (12 texts, 72 in one case in four, pooled operands with up to 40 messages judged against their own model before the merge); sampled sequences.", "DESIGN.md §4 C20"),
 "C02": ("exploration",
   "runtime reference-model monitor (raw document judged against the official Swagger 2.0 JSON schema by the independent draft-4 model, next to the real SpecValidator)",
   "Loadable mutated specifications are validated by the real SpecValidator in both modes, once more with Opts.SkipSchemataResult, and through Spec(); independently the raw JSON is judged against the vendored Swagger 2.0 schema by the draft-4 model; schema-invalid but accepted is a violation unless a recorded finding's exact emulation makes the model accept too.",
   "One direction only, as stated; vendored schema checked equal to spec.MustLoadSwagger20Schema() at start; model self-checked; sampled.", "DESIGN.md §4 C02"),
 "C03": ("exploration",
   "runtime generator-as-oracle monitor (valid-by-construction specifications and single rule-breaking edits, 4 option configurations, real SpecValidator)",
   "A grammar builds specifications which satisfy every documented rule and 29 single-fault edits each breaking exactly one rule; the real validator must report no error on the former and at least one on the latter in every configuration (overlapping paths only with strict uniqueness).",
   "The generator is trusted to break exactly the named rule; sampled.", "DESIGN.md §4 C03"),
 "C07": ("exploration",
   "runtime crash monitor (structurally mutated loadable specifications through SpecValidator.Validate in both modes, child processes, recover)",
   "Arbitrary structural edits of valid specifications (incl. odd names, null members, dangling and sibling-carrying $ref) that still load are validated in both modes; any panic or process death is a violation (a process death is attributed to the recorded composition-cycle finding only by call site + input class).",
   "Sampled; loads.Analyzed defines 'loads'.", "DESIGN.md §4 C07"),
 "C09": ("exploration",
   "runtime single-fault differential monitor (base / good-value / bad-value twins of one specification through the real SpecValidator)",
   "One default or example is planted at a chosen location (schemas at depth 0-4, simple parameters, headers, their items, response examples) with an accepted and a rejected value; bad default => error, bad example => extra warning, good value => nothing new. Recorded finding matched by the heuristic's own predicate on the planted path.",
   "Planted leaf schema is {type:integer,maximum:5}; generator is the oracle for the location; sampled.", "DESIGN.md §4 C09"),
 "C10": ("exploration",
   "runtime self-differential monitor across repetitions, fresh processes (new map seeds), continue-on-errors modes and serialisations",
   "Each document is validated 4x in-process, in 3 fresh processes, in both modes and as JSON / YAML / shuffled-member JSON; outcomes (verdict, error set, warning set, cycle messages reduced to their cycle) must coincide; stop-early errors must be a subset of continue-mode errors; separate warnings == attached warnings; warnings alone never invalidate.",
   "Map-order dependence is only visible when different orders are drawn (>=7 independent draws per document); state kept beyond a validation is provoked by a twin document (same names, other content) validated first in the same process and by the same reused validator object; one recorded finding (same loaded document validated again) is attributed by input class; sampled.", "DESIGN.md §4 C10"),
 "C14": ("exploration",
   "runtime reference-model monitor (textbook definitions of the 13 exported helpers, purity and argument snapshots)",
   "Every helper is called on generated arguments, twice, with its container arguments snapshotted; the nil/error answer is compared with an independently written textbook definition.",
   "Homogeneous element types for UniqueItems; strings.EqualFold as the definition of case folding; sampled.", "DESIGN.md §4 C14"),
 "C15": ("exploration",
   "Go race detector + runtime reference monitor (fresh -race process per goroutine/GOMAXPROCS configuration, colliding pattern families, answers compared with regexp compiled from the asked pattern)",
   "1..64 goroutines released together first-use the same new patterns, then mix shared, private and invalid ones through Pattern and pattern/patternProperties schemas; every answer is compared with Go regexp on that very pattern and the race-detector log of every process is parsed.",
   "Sampled schedules; the race detector only sees interleavings that happened; goroutines are kept alive to the end so their accesses are not forgotten.", "DESIGN.md §4 C15"),
 "C04": ("exploration",
   "runtime self-differential monitor (recycling entry points inside a history vs the same call alone, non-recycling, in a fresh process) + pool hooks (ownership automaton, poison on redeem)",
   "Histories of 60-240 tagged calls through AgainstSchema, single-use recycling validators and Spec are replayed with poison on, poison off and GC between calls; every outcome is compared with the fresh-process non-recycling reference; the hook-based ownership automaton flags double redeem / borrow of an owned object; messages are scanned for foreign tags and the poison mark.",
   "The library alone in a fresh process is the oracle; poison is sound by the pool contract; sampled histories.", "DESIGN.md §4 C04"),
 "C05": ("exploration",
   "Go race detector + runtime self-differential monitor + pool hooks (fresh -race process per goroutine/GOMAXPROCS configuration; phase A poison+yield without monitor synchronisation, phase B ownership automaton + hand-off census)",
   "2..64 goroutines run independent histories (AgainstSchema, recycling validators, Spec on own documents, shared long-lived validators whose outcome includes the recorded schemata, $ref-free schema objects shared between goroutines, helpers) while one toggles SetContinueOnErrors; each outcome is compared with its sequential reference; race-detector logs are parsed; cross-goroutine hand-offs of pooled objects are counted as evidence of the interleavings actually seen.",
   "Sampled schedules only; goroutines kept alive to the end; shared schemas are $ref-free as the property says; one configuration in nine shares schema objects carrying an id, where race reports whose write is the reference expander's write-back are the recorded finding schema-id-inplace-expansion-race.", "DESIGN.md §4 C05"),
 "C11": ("fault_enumeration",
   "runtime fault injection (panic at the k-th invocation of a caller-supplied format checker, every k up to the measured K; documented invalid-schema panic at 11 placements x 2 entry points) + self-differential follow-up + pool hooks",
   "For each workload the panic-free run measures K checker invocations; for every k=1..K the checker panics at invocation k, the caller recovers, and a 60-call follow-up history (+Spec) is compared call by call with fresh-process references while the ownership automaton watches the pools; same for the invalid-schema panic raised from under every kind of parent.",
   "Fault model: one recovered panic per history, raised by the checker or the documented schema panic; workloads are sampled, injection points within a workload are enumerated exhaustively.", "DESIGN.md §4 C11"),
 "C18": ("exploration",
   "runtime reference-model monitor (draft-4 model extended with applicable-schemata-per-member vs post.ApplyDefaults on the real result)",
   "Valid object data is validated by the real validator (recycling off/on), ApplyDefaults runs on the real result, and the data is compared with the model's prescription: absent members with an applicable default are filled with one of them, present members untouched, nothing else appears.",
   "Model trusted (self-checked); dependencies and null defaults excluded as stated; sampled.", "DESIGN.md §4 C18"),
 "C19": ("exploration",
   "runtime reference-model monitor (model-pruned data vs post.Prune on the real result, plus idempotence re-run)",
   "Valid data is validated by the real validator, Prune runs on the real result, and the remaining data must equal the data pruned by the model (member survives iff described by an applicable schema); without anyOf/oneOf a second validate+prune must remove nothing.",
   "Model trusted (self-checked); sampled.", "DESIGN.md §4 C19"),
}

NOT_YET = "check not built yet in this session (see DESIGN.md §4 for the planned monitor)"

def main():
    props = [json.loads(l) for l in open(os.path.join(V, "properties.jsonl"))]
    try:
        commits = subprocess.check_output(["git", "-C", "/repo", "log", "--format=%h %s"], text=True).splitlines()
    except Exception:
        commits = []
    hook_commits = [c.split()[0] for c in commits if c.split(" ", 1)[1].startswith("verif hooks")]
    checks, na = [], []
    for p in props:
        i = p["id"]
        if i in CLAIMED:
            cat, tech, text, note, ref = CLAIMED[i]
            checks.append({
                "property_id": i,
                "quick_cmd": "./check %s quick" % i,
                "thorough_cmd": "./check %s thorough" % i,
                "evidence_file": "/verif/evidence/%s.json" % i,
                "replay_cmd_template": "./check %s --replay {path}" % i,
                "engine": "vh",
                "level_claimed": {"category": cat, "text": text, "design_ref": ref},
                "level_note": note,
                "technique": tech,
            })
        else:
            na.append({"property_id": i, "reason": NOT_YET})
    m = {
        "version": 1,
        "setup_cmd": "./check setup",
        "hooks": {
            "guard": "verif",
            "enable": "go build -tags verif (harness module replaces github.com/go-openapi/validate by /repo)",
            "baseline_off_cmd": "cd /repo && GOFLAGS=-mod=mod go test -json -vet=off -count=1 -timeout 25m ./...",
            "source_commits": hook_commits,
            "add_only": True,
        },
        "engines": [{
            "name": "vh", "path": "/verif/harness",
            "serves_properties": sorted(CLAIMED),
            "kind_free_text": "Go harness: parent/worker processes running the real library (built with -tags verif, -race where needed) under generated workloads with online monitors (reference models, differential, pool-ownership/poison hooks, snapshots, race detector)",
        }],
        "checks": checks,
        "not_applicable": na,
        "notes": "Technique family: runtime monitoring and sanitizers only. Known findings: /verif/known_findings.txt. See DESIGN.md.",
    }
    json.dump(m, open(os.path.join(V, "MANIFEST.json"), "w"), indent=1)
    print("claimed", len(checks), "not_applicable", len(na))

if __name__ == "__main__":
    main()
