#!/usr/bin/env python3
"""Regenerates /verif/MANIFEST.json from the table below (run after adding a property driver)."""
import json, os, subprocess
V = os.path.dirname(os.path.dirname(os.path.abspath(__file__)))

# id -> (category, technique, level text, level note, design ref)
CLAIMED = {
 "C01": ("exploration",
   "runtime reference-model monitor (independent draft-4 evaluator over exact rationals, run in lock-step with AgainstSchema and NewSchemaValidator on generated pairs)",
   "Every generated (schema, instance) pair is executed through both entry points of the real library and the verdict is compared online with an independent draft-4 model; deviations are attributed to a recorded finding only when the model with exactly that deviation switched on reproduces the implementation on that very case. Held on N sampled pairs, not a proof.",
   "Trusted: the reference model (self-checked against the labelled JSON-Schema suite at every start), Go regexp, strfmt.Default, math/big. Sampled input space.", "DESIGN.md §4 C01"),
}

NOT_YET = "check not built yet in this session (see DESIGN.md §4 for the planned monitor)"

def main():
    props = [json.loads(l) for l in open(os.path.join(V, "properties.jsonl"))]
    try:
        commits = subprocess.check_output(["git", "-C", "/repo", "log", "--format=%h %s"], text=True).splitlines()
    except Exception:
        commits = []
    hook_commits = [c.split()[0] for c in commits if c.split(" ", 1)[1].startswith("verif hooks")]
    checks, na = [], []
    for p in props:
        i = p["id"]
        if i in CLAIMED:
            cat, tech, text, note, ref = CLAIMED[i]
            checks.append({
                "property_id": i,
                "quick_cmd": "./check %s quick" % i,
                "thorough_cmd": "./check %s thorough" % i,
                "evidence_file": "/verif/evidence/%s.json" % i,
                "replay_cmd_template": "./check %s --replay {path}" % i,
                "engine": "vh",
                "level_claimed": {"category": cat, "text": text, "design_ref": ref},
                "level_note": note,
                "technique": tech,
            })
        else:
            na.append({"property_id": i, "reason": NOT_YET})
    m = {
        "version": 1,
        "setup_cmd": "./check setup",
        "hooks": {
            "guard": "verif",
            "enable": "go build -tags verif (harness module replaces github.com/go-openapi/validate by /repo)",
            "baseline_off_cmd": "cd /repo && GOFLAGS=-mod=mod go test -json -vet=off -count=1 -timeout 25m ./...",
            "source_commits": hook_commits,
            "add_only": True,
        },
        "engines": [{
            "name": "vh", "path": "/verif/harness",
            "serves_properties": sorted(CLAIMED),
            "kind_free_text": "Go harness: parent/worker processes running the real library (built with -tags verif, -race where needed) under generated workloads with online monitors (reference models, differential, pool-ownership/poison hooks, snapshots, race detector)",
        }],
        "checks": checks,
        "not_applicable": na,
        "notes": "Technique family: runtime monitoring and sanitizers only. Known findings: /verif/known_findings.txt. See DESIGN.md.",
    }
    json.dump(m, open(os.path.join(V, "MANIFEST.json"), "w"), indent=1)
    print("claimed", len(checks), "not_applicable", len(na))

if __name__ == "__main__":
    main()
