#!/bin/bash
# tools/confirm_seed.sh <ID> [race]   — confirm a seeded change produced by a sub-agent:
#   demo passes on the clean tree, fails with the patch; the pinned suite still passes with the patch.
# Inputs: /tmp/seed/<ID>.patch.diff and /tmp/seed/<ID>.demo_test.go . Works in a scratch git worktree, removed afterwards.
set -u
id="$1"; race="${2:-}"
export GOFLAGS=-mod=mod GOPROXY=off GOSUMDB=off GOTOOLCHAIN=local
wt=$(mktemp -d /tmp/confirm-$id-XXXX); rmdir "$wt"
git -C /repo worktree add -q --detach "$wt" HEAD || exit 2
trap 'git -C /repo worktree remove --force "$wt" 2>/dev/null; git -C /repo worktree prune' EXIT
cp ${SEED_DIR:-/tmp/seed}/$id.demo_test.go "$wt/seeded_demo_test.go"
flags=(-vet=off -count=1 -run 'TestSeededDemo' .)
[ -n "$race" ] && flags=(-race "${flags[@]}")
(cd "$wt" && go test "${flags[@]}" > /tmp/confirm-$id.clean.log 2>&1); clean=$?
git -C "$wt" apply ${SEED_DIR:-/tmp/seed}/$id.patch.diff || { echo "CONFIRM $id: patch does not apply"; exit 1; }
(cd "$wt" && go test "${flags[@]}" > /tmp/confirm-$id.patched.log 2>&1); patched=$?
rm "$wt/seeded_demo_test.go"
for try in 1 2 3 4 5 6 7 8 9 10 11 12; do
  # a private network namespace (loopback only) keeps 127.0.0.1:1234 free of other suites running on this machine
  (cd "$wt" && unshare -rn sh -c 'ip link set lo up; exec go test -json -vet=off -count=1 -timeout 25m ./...' > /tmp/confirm-$id.suite.json 2>&1)
  # the repository suite binds 127.0.0.1:1234; another suite running at the same time makes it panic: retry
  grep -q "address already in use" /tmp/confirm-$id.suite.json || break
  sleep $((RANDOM % 20 + 5))
done
suite=$(/verif/tools/baseline_compare.py /tmp/confirm-$id.suite.json | head -1)
echo "CONFIRM $id: demo on clean tree exit=$clean (want 0); demo with patch exit=$patched (want !=0); suite with patch: $suite"
[ $clean = 0 ] && [ $patched != 0 ] && grep -q "passing=340" <<<"$suite"
