#!/bin/bash
# tools/try_seed.sh <ID> <prop> [prop...]  — run the quick check(s) of the given properties against a scratch
# worktree of /repo with $SEED_DIR/<ID>.patch.diff applied (not yet installed under seeded/). /repo is not touched.
set -u
id="$1"; shift
cd "$(dirname "$(readlink -f "$0")")/.."
scratch=$(mktemp -d /tmp/verif-try-XXXXXX); rmdir "$scratch"
git -C /repo worktree add -q --detach "$scratch" HEAD || exit 2
trap 'git -C /repo worktree remove --force "$scratch" 2>/dev/null; git -C /repo worktree prune' EXIT
git -C "$scratch" apply "${SEED_DIR:-/tmp/seed}/$id.patch.diff" || { echo "TRY $id: patch does not apply"; exit 2; }
for prop in "$@"; do
  out=$(VERIF_REPO="$scratch" VERIF_EVIDENCE_DIR="$scratch/.evidence" ./check "$prop" quick 2>&1); code=$?
  if [ $code = 1 ] && grep -q "^VIOLATION property=$prop" <<<"$out"; then
    echo "TRY $id: CAUGHT by $prop: $(grep -m1 -A1 '^VIOLATION' <<<"$out" | tail -1 | cut -c1-300)"
  else
    echo "TRY $id: MISSED by $prop (exit $code): $(grep -E '^(RESULT|BROKEN)' <<<"$out" | head -2 | cut -c1-200)"
  fi
done
