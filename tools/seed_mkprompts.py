import json, os, glob, sys
rnd = sys.argv[1] if len(sys.argv)>1 else '6'
base = '/tmp/seed%s' % rnd
props = {}
for l in open('/verif/properties.jsonl'):
    d = json.loads(l); props[d['id']] = d
prior = {}
for m in glob.glob('/verif/seeded/*/meta.json'):
    d = json.load(open(m)); prior.setdefault(d['property'], []).append(d['needs_to_manifest'])
TEMPLATE = open('/verif/tools/seed_prompt_template.md').read()
for pid, p in props.items():
    text = "### %s — %s\n\n**Statement.** %s\n\n**Holds for.** %s\n\n**Why the existing tests cannot settle it.** %s\n\n**Where it lives (anchors).**\n" % (pid, p['title'], p['statement'], p['quantifier']['text'], p['why_tests_cant'])
    for m in p['anchors'].get('mechanism', []):
        text += "- %s — %s\n" % (m['name'], m['where'])
    for m in p['anchors'].get('state', []) or []:
        text += "- state: %s (%s) — %s\n" % (m['name'], m['meaning'], m['where'])
    text += "- observed at: %s\n" % '; '.join(p['anchors'].get('observe_at', []))
    pr = '\n'.join('- ' + x for x in prior.get(pid, []))
    out = TEMPLATE.replace('{{PROP}}', text).replace('{{ID}}', pid).replace('{{WT}}', '%s/wt-%s' % (base, pid)).replace('{{OUT}}', base + '/out').replace('{{PRIOR}}', pr)
    open('%s/prompts/%s.md' % (base, pid), 'w').write(out)
