#!/usr/bin/env python3
"""Sanity of /verif/known_findings.txt: every `fixed:` line names a commit of /repo whose message starts with "fix:",
every `known:` line has property= and key=.  Prints problems; exit 1 if any."""
import re, subprocess, sys
bad = 0
log = subprocess.run(['git', '-C', '/repo', 'log', '--format=%h %s'], capture_output=True, text=True).stdout.splitlines()
msgs = {l.split()[0]: l.split(' ', 1)[1] for l in log if l.strip()}
nf = nk = 0
for n, line in enumerate(open('/verif/known_findings.txt'), 1):
    line = line.strip()
    if line.startswith('fixed:'):
        nf += 1
        m = re.match(r'fixed: property=(C\d+) ([0-9a-f]{7,}) ', line)
        if not m:
            print('line %d: malformed fixed entry' % n); bad += 1; continue
        h = m.group(2)
        hit = [k for k in msgs if k.startswith(h) or h.startswith(k)]
        if not hit:
            print('line %d: commit %s not in /repo history' % (n, h)); bad += 1
        elif not msgs[hit[0]].startswith('fix:'):
            print('line %d: commit %s is not a fix: commit (%s)' % (n, h, msgs[hit[0]][:50])); bad += 1
    elif line.startswith('known:'):
        nk += 1
        if not re.search(r'property=C\d+', line) or not re.search(r'key=\S+', line):
            print('line %d: known entry without property=/key=' % n); bad += 1
print('known_findings.txt: %d fixed, %d known, %d problems' % (nf, nk, bad))
sys.exit(1 if bad else 0)
