#!/opt/veriftools/pyvenv/bin/python3
"""Cross-check of the Go draft-4 model on the Swagger 2.0 JSON schema against python jsonschema's
Draft4Validator.  Reads JSON lines {"document", "model_valid"} from stdin; the schema is the vendored
harness/model/swagger20.json.  Format assertions are off on both sides.  Exit 1 on the first disagreement."""
import json, sys, os
from jsonschema import Draft4Validator
here = os.path.dirname(os.path.abspath(__file__))
schema = json.load(open(os.path.join(here, '..', 'harness', 'model', 'swagger20.json')))
v = Draft4Validator(schema)

def norm(x):
    if isinstance(x, float) and x.is_integer() and abs(x) < 2**53:
        return int(x)
    if isinstance(x, list):
        return [norm(e) for e in x]
    if isinstance(x, dict):
        return {k: norm(e) for k, e in x.items()}
    return x

n = valid = 0
for line in sys.stdin:
    line = line.strip()
    if not line:
        continue
    rec = json.loads(line)
    doc = norm(rec['document'])
    py = v.is_valid(doc)
    n += 1
    valid += 1 if py else 0
    if py != rec['model_valid']:
        errs = [e.message[:200] for e in list(v.iter_errors(doc))[:3]]
        print("MODEL-DISAGREES-WITH-PYTHON python=%s model=%s python_errors=%s document=%s" % (py, rec['model_valid'], errs, json.dumps(doc)[:3000]))
        sys.exit(1)
print("swagger-schema cross-check: compared=%d agree=%d (schema-valid=%d schema-invalid=%d)" % (n, n, valid, n - valid))
if n < 200:
    print("too few documents compared")
    sys.exit(1)
