// Package sut adapts go-openapi/validate (the system under test) for the monitors:
// decoding of inputs, invocation under recover, normalisation of outcomes.
package sut

import (
	"encoding/json"
	"fmt"
	"runtime/debug"
	"sort"
	"strings"

	"github.com/go-openapi/spec"
	"github.com/go-openapi/strfmt"
	"github.com/go-openapi/validate"
)

// Outcome is the normalised observable result of one validation.
type Outcome struct {
	Valid    bool     `json:"valid"`
	Errors   []string `json:"errors,omitempty"`   // sorted; duplicates kept
	Warnings []string `json:"warnings,omitempty"` // sorted; duplicates kept
	Panic    string   `json:"panic,omitempty"`
	Stack    string   `json:"-"`
	Nil      bool     `json:"nil_result,omitempty"`
}

// Key is a comparable rendering of an outcome.
func (o Outcome) Key() string {
	return fmt.Sprintf("v=%v|p=%s|e=%s|w=%s", o.Valid, o.Panic, strings.Join(o.Errors, "\x1f"), strings.Join(o.Warnings, "\x1f"))
}

// Msgs returns sorted messages of errors.
func Msgs(errs []error) []string {
	out := make([]string, 0, len(errs))
	for _, e := range errs {
		if e == nil {
			out = append(out, "<nil error>")
			continue
		}
		out = append(out, e.Error())
	}
	sort.Strings(out)
	return out
}

// FromResult normalises a *validate.Result.
func FromResult(r *validate.Result) Outcome {
	if r == nil {
		return Outcome{Valid: true, Nil: true}
	}
	return Outcome{Valid: r.IsValid(), Errors: Msgs(r.Errors), Warnings: Msgs(r.Warnings)}
}

// FromError normalises the error of AgainstSchema / Spec.
func FromError(err error) Outcome {
	if err == nil {
		return Outcome{Valid: true}
	}
	type unwrapper interface{ Unwrap() []error }
	if u, ok := err.(unwrapper); ok {
		return Outcome{Valid: false, Errors: Msgs(u.Unwrap())}
	}
	return Outcome{Valid: false, Errors: []string{err.Error()}}
}

// ResetPoolsOnPanic makes Guard replace the pools after a recovered panic, so that later cases of the
// same process do not inherit what the panic left behind. The C11 driver switches it off: what a
// panic leaves behind is exactly what it observes.
var ResetPoolsOnPanic = true

// Guard runs f and converts a panic into an outcome.
func Guard(f func() Outcome) (o Outcome) {
	defer func() {
		if e := recover(); e != nil {
			o = Outcome{Panic: fmt.Sprint(e), Stack: string(debug.Stack())}
			// a panic which unwinds a recycling validation leaves the pools corrupted (that is
			// property C11); later cases of this process must not inherit that
			if ResetPoolsOnPanic {
				validate.VerifResetPools()
			}
		}
	}()
	return f()
}

// Schema decodes a schema text into a fresh *spec.Schema.
func Schema(text []byte) (*spec.Schema, error) {
	s := new(spec.Schema)
	if err := json.Unmarshal(text, s); err != nil {
		return nil, err
	}
	return s, nil
}

// Value decodes an instance text the way a caller of encoding/json gets it (numbers as float64).
func Value(text []byte) (any, error) {
	var v any
	if err := json.Unmarshal(text, &v); err != nil {
		return nil, err
	}
	return v, nil
}

// Against calls the one-shot entry point on fresh decodings of the texts.
func Against(schemaText, instText []byte, formats strfmt.Registry, opts ...validate.Option) Outcome {
	return Guard(func() Outcome {
		s, err := Schema(schemaText)
		if err != nil {
			return Outcome{Panic: "harness: schema does not decode: " + err.Error()}
		}
		v, err := Value(instText)
		if err != nil {
			return Outcome{Panic: "harness: instance does not decode: " + err.Error()}
		}
		return FromError(validate.AgainstSchema(s, v, formats, opts...))
	})
}

// WithValidator builds a validator object from a fresh decoding and validates once.
func WithValidator(schemaText, instText []byte, root string, formats strfmt.Registry, opts ...validate.Option) Outcome {
	return Guard(func() Outcome {
		s, err := Schema(schemaText)
		if err != nil {
			return Outcome{Panic: "harness: schema does not decode: " + err.Error()}
		}
		v, err := Value(instText)
		if err != nil {
			return Outcome{Panic: "harness: instance does not decode: " + err.Error()}
		}
		return FromResult(validate.NewSchemaValidator(s, nil, root, formats, opts...).Validate(v))
	})
}

// IsDocumentedSchemaPanic recognises the documented panic for a schema whose references cannot be resolved.
func IsDocumentedSchemaPanic(p string) bool {
	return strings.Contains(p, "Invalid schema provided to SchemaValidator")
}
