package sut

import (
	"encoding/json"
	"fmt"
	"runtime/debug"

	"github.com/go-openapi/loads"
	"github.com/go-openapi/strfmt"
	"github.com/go-openapi/validate"
)

// SpecOutcome is the normalised result of a specification validation.
type SpecOutcome struct {
	Loaded   bool     `json:"loaded"`
	LoadErr  string   `json:"load_error,omitempty"`
	Valid    bool     `json:"valid"`
	Errors   []string `json:"errors,omitempty"`
	Warnings []string `json:"warnings,omitempty"`    // warnings attached to the main result
	Separate []string `json:"separate_warnings,omitempty"` // the separately returned warnings
	Panic    string   `json:"panic,omitempty"`
	Stack    string   `json:"-"`
}

// Key renders verdict + errors + warnings.
func (o SpecOutcome) Key() string {
	return fmt.Sprintf("l=%v|v=%v|p=%s|e=%q|w=%q", o.Loaded, o.Valid, o.Panic, o.Errors, o.Warnings)
}

// LoadSpec loads a document from JSON text.
func LoadSpec(text []byte) (*loads.Document, error) {
	return loads.Analyzed(json.RawMessage(text), "")
}

// SpecOpts selects the validator configuration.
type SpecOpts struct {
	Continue     bool
	Strict       bool
	SkipSchemata bool // Opts.SkipSchemataResult: the caller does not want the schemata recorded (verdict and messages must not change)
}

// ValidateSpec loads and validates a document with a SpecValidator pinned to the given options.
func ValidateSpec(text []byte, o SpecOpts) (out SpecOutcome) {
	return ValidateSpecWith(text, o, strfmt.Default)
}

// ValidateSpecWith is ValidateSpec with a caller-supplied format registry.
func ValidateSpecWith(text []byte, o SpecOpts, formats strfmt.Registry) (out SpecOutcome) {
	defer func() {
		if e := recover(); e != nil {
			out.Panic = fmt.Sprint(e)
			out.Stack = string(debug.Stack())
			if ResetPoolsOnPanic {
				validate.VerifResetPools()
			}
		}
	}()
	doc, err := LoadSpec(text)
	if err != nil {
		return SpecOutcome{LoadErr: err.Error()}
	}
	return ValidateDocWith(doc, o, formats)
}

// ValidateDoc validates an already loaded document.
func ValidateDoc(doc *loads.Document, o SpecOpts) (out SpecOutcome) {
	return ValidateDocWith(doc, o, strfmt.Default)
}

// ValidateDocWith validates an already loaded document with a caller-supplied format registry.
func ValidateDocWith(doc *loads.Document, o SpecOpts, formats strfmt.Registry) (out SpecOutcome) {
	defer func() {
		if e := recover(); e != nil {
			out.Loaded = true
			out.Panic = fmt.Sprint(e)
			out.Stack = string(debug.Stack())
			if ResetPoolsOnPanic {
				validate.VerifResetPools()
			}
		}
	}()
	v := validate.NewSpecValidator(doc.Schema(), formats)
	v.SetContinueOnErrors(o.Continue)
	v.Options.StrictPathParamUniqueness = o.Strict
	v.Options.SkipSchemataResult = o.SkipSchemata
	errs, warns := v.Validate(doc)
	out.Loaded = true
	if errs == nil || warns == nil {
		out.Panic = "Validate returned a nil result"
		return out
	}
	out.Valid = errs.IsValid()
	out.Errors = Msgs(errs.Errors)
	out.Warnings = Msgs(errs.Warnings)
	out.Separate = Msgs(warns.Errors)
	return out
}

// SpecSession keeps one long-lived SpecValidator per option set: the same validator object is used
// for every document handed to it, one after the other (a SpecValidator is not single-use).
type SpecSession struct {
	validators map[SpecOpts]*validate.SpecValidator
	Count      int
	Formats    strfmt.Registry // nil: strfmt.Default
}

// NewSpecSession creates an empty session.
func NewSpecSession() *SpecSession { return &SpecSession{validators: map[SpecOpts]*validate.SpecValidator{}} }

// Validate validates a freshly loaded document with the session's reused validator.
func (ss *SpecSession) Validate(text []byte, o SpecOpts) (out SpecOutcome) {
	defer func() {
		if e := recover(); e != nil {
			out.Loaded = true
			out.Panic = fmt.Sprint(e)
			out.Stack = string(debug.Stack())
			delete(ss.validators, o) // a validator which panicked is not reused
			if ResetPoolsOnPanic {
				validate.VerifResetPools()
			}
		}
	}()
	doc, err := LoadSpec(text)
	if err != nil {
		return SpecOutcome{LoadErr: err.Error()}
	}
	v := ss.validators[o]
	if v == nil {
		formats := ss.Formats
		if formats == nil {
			formats = strfmt.Default
		}
		v = validate.NewSpecValidator(doc.Schema(), formats)
		v.SetContinueOnErrors(o.Continue)
		v.Options.StrictPathParamUniqueness = o.Strict
		v.Options.SkipSchemataResult = o.SkipSchemata
		ss.validators[o] = v
	}
	ss.Count++
	errs, warns := v.Validate(doc)
	out.Loaded = true
	if errs == nil || warns == nil {
		out.Panic = "Validate returned a nil result"
		return out
	}
	out.Valid = errs.IsValid()
	out.Errors = Msgs(errs.Errors)
	out.Warnings = Msgs(errs.Warnings)
	out.Separate = Msgs(warns.Errors)
	return out
}
