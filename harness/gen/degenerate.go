package gen

import (
	"strings"
)

// Degenerate mutates a generated schema document in place into a degenerate but decodable one:
// empty lists, negative / huge bounds, multipleOf <= 0, invalid regular expressions, unknown types
// and formats, keywords foreign to the instance kind, additionalItems without items, references
// (resolvable, recursive, or — when allowDangling — unresolvable).
// It returns the list of edits applied.
func (g *SchemaGen) Degenerate(doc map[string]any, allowDangling bool) []string {
	var edits []string
	var nodes []map[string]any
	var walk func(v any, depth int)
	walk = func(v any, depth int) {
		switch x := v.(type) {
		case map[string]any:
			nodes = append(nodes, x)
			for _, k := range sortedKeys(x) {
				switch k {
				case "enum", "default", "required", "type":
					continue
				case "properties", "patternProperties", "definitions", "dependencies":
					if m, ok := x[k].(map[string]any); ok {
						for _, kk := range sortedKeys(m) {
							walk(m[kk], depth+1)
						}
					}
				default:
					walk(x[k], depth+1)
				}
			}
		case []any:
			for _, e := range x {
				walk(e, depth+1)
			}
		}
	}
	walk(doc, 0)
	n := g.R.Range(1, 4)
	for i := 0; i < n; i++ {
		s := nodes[g.R.Intn(len(nodes))]
		if _, isRef := s["$ref"]; isRef {
			continue
		}
		switch g.R.Intn(22) {
		case 0:
			s["enum"] = []any{}
			edits = append(edits, "empty-enum")
		case 1:
			s["required"] = []any{}
			edits = append(edits, "empty-required")
		case 2:
			s["items"] = []any{}
			if g.R.Bool() {
				s["additionalItems"] = g.R.Bool()
			} else {
				s["additionalItems"] = map[string]any{"type": "string"}
			}
			edits = append(edits, "empty-tuple")
		case 3:
			s[g.R.Pick("allOf", "anyOf", "oneOf")] = []any{}
			edits = append(edits, "empty-composition")
		case 4:
			s[g.R.Pick("minLength", "maxLength", "minItems", "maxItems", "minProperties", "maxProperties")] = N(g.R.Pick("-1", "-100", "9223372036854775807", "0"))
			edits = append(edits, "negative-or-huge-count")
		case 5:
			s["multipleOf"] = N(g.R.Pick("0", "-1", "-0.5", "1e-320", "1e308"))
			edits = append(edits, "bad-multipleOf")
		case 6:
			s[g.R.Pick("minimum", "maximum")] = N(g.R.Pick("1e308", "-1e308", "1e-320", "123456789012345678901234567890", "-0"))
			edits = append(edits, "extreme-bound")
		case 7:
			s["pattern"] = g.R.Pick("(", "[a", "a{2,1}", "\\", "(?P<n", "*a", "a**", "(?!x)")
			edits = append(edits, "invalid-pattern")
		case 8:
			pp, _ := s["patternProperties"].(map[string]any)
			if pp == nil {
				pp = map[string]any{}
				s["patternProperties"] = pp
			}
			pp[g.R.Pick("(", "[a", "*", "a{2,1}")] = map[string]any{"type": "string"}
			edits = append(edits, "invalid-patternProperties")
		case 9:
			s["type"] = g.R.Pick("foo", "", "file", "Object", "any")
			edits = append(edits, "unknown-type")
		case 10:
			s["type"] = []any{}
			edits = append(edits, "empty-type-list")
		case 11:
			s["format"] = g.R.Pick("foo", "", "int32", "int64", "float", "double", "byte", "binary", "password", "date", "uuid")
			edits = append(edits, "format-without-type-or-unknown")
		case 12:
			// keywords foreign to the declared kind
			s["minLength"] = I(2)
			s["minimum"] = I(3)
			s["minItems"] = I(1)
			s["minProperties"] = I(1)
			s["required"] = []any{"a"}
			edits = append(edits, "foreign-keywords")
		case 13:
			delete(s, "items")
			if g.R.Bool() {
				s["additionalItems"] = map[string]any{"type": g.R.Pick("string", "number")}
			} else {
				s["additionalItems"] = false
			}
			edits = append(edits, "additionalItems-without-items")
		case 14:
			s["items"] = map[string]any{"type": "number"}
			s["additionalItems"] = map[string]any{"type": "string"}
			edits = append(edits, "additionalItems-with-single-items")
		case 15:
			s["dependencies"] = map[string]any{g.name(): []any{}, g.name(): map[string]any{}}
			edits = append(edits, "empty-dependencies")
		case 16:
			s["properties"] = map[string]any{}
			s["patternProperties"] = map[string]any{}
			edits = append(edits, "empty-properties")
		case 17:
			// productive recursion: a member refers back to the root
			props, _ := s["properties"].(map[string]any)
			if props == nil {
				props = map[string]any{}
				s["properties"] = props
			}
			props[g.name()] = map[string]any{"$ref": "#"}
			edits = append(edits, "recursive-ref-under-properties")
		case 18:
			s["items"] = map[string]any{"$ref": "#"}
			edits = append(edits, "recursive-ref-under-items")
		case 19:
			if allowDangling {
				target := g.R.Pick("#/definitions/nowhere", "#/nowhere", "#/definitions/d0/properties/zz")
				switch g.R.Intn(4) {
				case 0:
					props, _ := s["properties"].(map[string]any)
					if props == nil {
						props = map[string]any{}
						s["properties"] = props
					}
					props[g.name()] = map[string]any{"$ref": target}
				case 1:
					s["items"] = map[string]any{"$ref": target}
				case 2:
					s[g.R.Pick("allOf", "anyOf", "oneOf")] = []any{map[string]any{"$ref": target}}
				default:
					s["not"] = map[string]any{"$ref": target}
				}
				edits = append(edits, "dangling-ref")
			}
		case 20:
			s["uniqueItems"] = true
			s["enum"] = []any{[]any{}, map[string]any{}, nil}
			edits = append(edits, "enum-of-containers")
		case 21:
			s["exclusiveMinimum"] = true
			s["exclusiveMaximum"] = true
			edits = append(edits, "exclusive-without-bound")
		}
	}
	return edits
}

// DeepNest builds a schema and an instance nested n levels deep through items / properties.
func DeepNest(n int, viaItems bool) (schema map[string]any, inst any) {
	leaf := map[string]any{"type": "integer", "maximum": I(5)}
	var s map[string]any = leaf
	var v any = I(7)
	for i := 0; i < n; i++ {
		if viaItems {
			s = map[string]any{"type": "array", "items": s}
			v = []any{v}
		} else {
			s = map[string]any{"type": "object", "properties": map[string]any{"a": s}}
			v = map[string]any{"a": v}
		}
	}
	return s, v
}

// ExtremeNumbers are number texts at and beyond the edges of what float64 / int64 can hold.
var ExtremeNumbers = []string{
	"1e400", "-1e400", "1e-400", "-0", "0.0", "9223372036854775807", "9223372036854775808", "-9223372036854775809",
	"1234567890123456789012345678901234567890", "0.1234567890123456789012345678901234567890", "1E5", "1e+2", "4.9e-324", "1.7976931348623157e308",
	"2147483648", "-2147483649", "4294967296", "3.0", "3.5",
}

// FreeValueExtreme is FreeValue with extreme numbers mixed in.
func (g *SchemaGen) FreeValueExtreme(depth int) any {
	v := g.FreeValue(depth)
	var patch func(x any) any
	patch = func(x any) any {
		switch t := x.(type) {
		case []any:
			for i := range t {
				t[i] = patch(t[i])
			}
			return t
		case map[string]any:
			for _, k := range sortedKeys(t) {
				t[k] = patch(t[k])
			}
			return t
		default:
			if g.R.P(0.25) {
				return N(ExtremeNumbers[g.R.Intn(len(ExtremeNumbers))])
			}
			return x
		}
	}
	return patch(v)
}

var _ = strings.Join
