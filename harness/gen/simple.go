package gen

import (
	"math"
	"math/big"
	"reflect"

	"github.com/go-openapi/spec"

	"verif/harness/lib"
	"verif/harness/model"
)

// SimpleDef is a Swagger 2.0 simple schema (non-body parameter, header, items).
type SimpleDef = model.SimpleDef

// SimpleGen generates simple-schema definitions and typed Go values.
type SimpleGen struct {
	R *lib.Rand
	// FractionalBounds allows non-integral constraints on integer types (C13's domain)
	FractionalBounds bool
	// ByteSlices lets arrays whose elements all are uint8 travel as []uint8 (which the library takes for a binary string)
	ByteSlices bool
}

func f64(v float64) *float64 { return &v }
func i64(v int64) *int64     { return &v }

var intFormats = []string{"", "int32", "int64", "uint32", "uint64"}
var numFormats = []string{"", "float", "double"}

// Definition generates a definition; depth bounds the nesting of items.
func (g *SimpleGen) Definition(depth int) *SimpleDef {
	w := []int{4, 4, 4, 1, 4}
	if depth <= 0 {
		w[4] = 0
	}
	d := &SimpleDef{}
	switch g.R.Weighted(w...) {
	case 0:
		d.Type = "string"
		if g.R.P(0.4) {
			d.MinLength = i64(int64(g.R.Range(0, 4)))
		}
		if g.R.P(0.4) {
			d.MaxLength = i64(int64(g.R.Range(0, 6)))
		}
		if g.R.P(0.3) {
			d.Pattern = pickPatternP(g.R, 0.6, 1500) // simple schemas carry few patterns: most of them distinct
		}
		if g.R.P(0.25) {
			d.Format = Formats[g.R.Intn(len(Formats))].Name
		}
		if g.R.P(0.2) {
			d.Enum = []any{g.R.Pick("a", "ab", "é", "2020-01-31", "foo"), g.R.Pick("b", "x-1", "", "A")}
		}
	case 1, 2:
		if g.R.Bool() {
			d.Type = "integer"
			d.Format = intFormats[g.R.Intn(len(intFormats))]
		} else {
			d.Type = "number"
			d.Format = numFormats[g.R.Intn(len(numFormats))]
		}
		integral := d.Type == "integer" && !g.FractionalBounds
		bound := func() float64 {
			if integral || g.R.P(0.5) {
				return float64(g.R.Range(-6, 30))
			}
			return []float64{0.5, 1.5, 2.25, -0.5, 7.5, 0.25, 10.75, -3.5}[g.R.Intn(8)]
		}
		if d.Format == "uint32" || d.Format == "uint64" {
			// keep bounds inside the range of the declared format
			bound = func() float64 { return float64(g.R.Range(0, 30)) }
		}
		if g.R.P(0.5) {
			d.Minimum = f64(bound())
			d.ExclMin = g.R.P(0.3)
		}
		if g.R.P(0.5) {
			d.Maximum = f64(bound())
			d.ExclMax = g.R.P(0.3)
		}
		if g.R.P(0.3) {
			if integral || g.R.P(0.5) {
				d.MultipleOf = f64(float64(g.R.Range(1, 7)))
			} else {
				d.MultipleOf = f64([]float64{0.5, 0.25, 1.5, 2.5, 0.125}[g.R.Intn(5)])
			}
		}
		if g.R.P(0.2) {
			if g.R.P(0.3) {
				d.EnumTyped = true
				d.Enum = []any{g.R.Range(0, 5), g.R.Range(3, 9)}
			} else {
				d.Enum = []any{float64(g.R.Range(0, 5)), float64(g.R.Range(3, 9))}
				if d.Type == "number" && g.R.Bool() {
					d.Enum = append(d.Enum, 2.5)
				}
			}
		}
	case 3:
		d.Type = "boolean"
		if g.R.P(0.3) {
			d.Enum = []any{g.R.Bool()}
		}
	default:
		d.Type = "array"
		d.Items = g.Definition(depth - 1)
		if g.R.P(0.4) {
			d.MinItems = i64(int64(g.R.Range(0, 3)))
		}
		if g.R.P(0.4) {
			d.MaxItems = i64(int64(g.R.Range(0, 4)))
		}
		d.UniqueItems = g.R.P(0.3)
	}
	return d
}

func (g *SimpleGen) fill(ss *spec.SimpleSchema, cv *spec.CommonValidations, d *SimpleDef) {
	ss.Type, ss.Format = d.Type, d.Format
	cv.Maximum, cv.Minimum, cv.ExclusiveMaximum, cv.ExclusiveMinimum, cv.MultipleOf = d.Maximum, d.Minimum, d.ExclMax, d.ExclMin, d.MultipleOf
	cv.MaxLength, cv.MinLength, cv.Pattern = d.MaxLength, d.MinLength, d.Pattern
	cv.MaxItems, cv.MinItems, cv.UniqueItems = d.MaxItems, d.MinItems, d.UniqueItems
	cv.Enum = d.Enum
	if d.Items != nil {
		ss.Items = g.Items(d.Items)
	}
}

// Param builds a *spec.Parameter.
func (g *SimpleGen) Param(d *SimpleDef, name, in string) *spec.Parameter {
	p := &spec.Parameter{}
	p.Name, p.In, p.Required = name, in, d.Required
	g.fill(&p.SimpleSchema, &p.CommonValidations, d)
	return p
}

// Header builds a *spec.Header.
func (g *SimpleGen) Header(d *SimpleDef) *spec.Header {
	h := &spec.Header{}
	g.fill(&h.SimpleSchema, &h.CommonValidations, d)
	return h
}

// Items builds a *spec.Items.
func (g *SimpleGen) Items(d *SimpleDef) *spec.Items {
	it := &spec.Items{}
	g.fill(&it.SimpleSchema, &it.CommonValidations, d)
	return it
}

// NumKinds are the Go numeric kinds a number can be carried by.
var NumKinds = []reflect.Kind{
	reflect.Int, reflect.Int8, reflect.Int16, reflect.Int32, reflect.Int64,
	reflect.Uint, reflect.Uint8, reflect.Uint16, reflect.Uint32, reflect.Uint64,
	reflect.Float32, reflect.Float64,
}

// Carry returns v carried by the given Go kind, and whether the kind represents it exactly.
func Carry(v *big.Rat, k reflect.Kind) (any, bool) {
	if k == reflect.Float64 || k == reflect.Float32 {
		f, exact := v.Float64()
		if !exact {
			return nil, false
		}
		if k == reflect.Float32 {
			f32 := float32(f)
			if float64(f32) != f || math.IsInf(float64(f32), 0) {
				return nil, false
			}
			return f32, true
		}
		return f, true
	}
	if !v.IsInt() {
		return nil, false
	}
	n := v.Num()
	if k >= reflect.Uint && k <= reflect.Uint64 {
		if n.Sign() < 0 || !n.IsUint64() {
			return nil, false
		}
		u := n.Uint64()
		switch k {
		case reflect.Uint:
			return uint(u), true
		case reflect.Uint8:
			return uint8(u), u <= math.MaxUint8
		case reflect.Uint16:
			return uint16(u), u <= math.MaxUint16
		case reflect.Uint32:
			return uint32(u), u <= math.MaxUint32
		default:
			return u, true
		}
	}
	if !n.IsInt64() {
		return nil, false
	}
	i := n.Int64()
	switch k {
	case reflect.Int:
		return int(i), true
	case reflect.Int8:
		return int8(i), i >= math.MinInt8 && i <= math.MaxInt8
	case reflect.Int16:
		return int16(i), i >= math.MinInt16 && i <= math.MaxInt16
	case reflect.Int32:
		return int32(i), i >= math.MinInt32 && i <= math.MaxInt32
	default:
		return i, true
	}
}

// numberNear picks a rational near the constraints of d.
func (g *SimpleGen) numberNear(d *SimpleDef, flip float64) *big.Rat {
	if d.Type == "integer" && g.R.P(0.05) {
		// the edges of the integer formats and of the Go integer kinds (only the wide carriers can hold them)
		r, _ := new(big.Rat).SetString([]string{
			"2147483647", "2147483648", "-2147483648", "-2147483649", "4294967295", "4294967296",
			"9223372036854775807", "9223372036854775808", "-9223372036854775808", "18446744073709551615", "9223372036854775809",
		}[g.R.Intn(11)])
		return r
	}
	var cands []*big.Rat
	deltas := []string{"0", "1", "-1", "0.5", "-0.5", "0.25", "2"}
	for _, b := range []*float64{d.Minimum, d.Maximum} {
		if b != nil {
			base := new(big.Rat).SetFloat64(*b)
			dd, _ := new(big.Rat).SetString(deltas[g.R.Intn(len(deltas))])
			cands = append(cands, new(big.Rat).Add(base, dd))
		}
	}
	if d.MultipleOf != nil && *d.MultipleOf > 0 {
		m := new(big.Rat).SetFloat64(*d.MultipleOf)
		v := new(big.Rat).Mul(m, new(big.Rat).SetInt64(int64(g.R.Range(-2, 12))))
		if g.R.P(flip) {
			v.Add(v, new(big.Rat).Quo(m, big.NewRat(2, 1)))
		}
		cands = append(cands, v)
	}
	if len(d.Enum) > 0 && g.R.P(0.5) {
		switch e := d.Enum[g.R.Intn(len(d.Enum))].(type) {
		case float64:
			cands = append(cands, new(big.Rat).SetFloat64(e))
		case int:
			cands = append(cands, new(big.Rat).SetInt64(int64(e)))
			if g.R.P(0.3) {
				cands = append(cands, new(big.Rat).Add(new(big.Rat).SetInt64(int64(e)), big.NewRat(1, 2)))
			}
		}
	}
	if len(cands) > 0 && g.R.P(0.8) {
		return cands[g.R.Intn(len(cands))]
	}
	if g.R.P(0.3) {
		r, _ := new(big.Rat).SetString([]string{"0.5", "1.5", "-2.5", "3.25", "100.125"}[g.R.Intn(5)])
		return r
	}
	return new(big.Rat).SetInt64(int64(g.R.Range(-8, 40)))
}

// Value produces a typed Go value for d: mostly of the declared type around the boundaries
// of its constraints, sometimes of another kind.
func (g *SimpleGen) Value(d *SimpleDef, flip float64) any {
	if g.R.P(0.08) {
		// a value of a non-matching kind
		switch g.R.Intn(5) {
		case 0:
			if g.ByteSlices && g.R.P(0.3) {
				return []uint8("ab")
			}
			return "str"
		case 1:
			return true
		case 2:
			return 3
		case 3:
			return 2.5
		default:
			return []string{"a"}
		}
	}
	switch d.Type {
	case "string":
		sg := &SchemaGen{R: g.R}
		s := map[string]any{}
		if d.MinLength != nil {
			s["minLength"] = I(int(*d.MinLength))
		}
		if d.MaxLength != nil {
			s["maxLength"] = I(int(*d.MaxLength))
		}
		if d.Pattern != "" {
			s["pattern"] = d.Pattern
		}
		if d.Format != "" {
			s["format"] = d.Format
		}
		if len(d.Enum) > 0 && g.R.P(0.5) {
			return d.Enum[g.R.Intn(len(d.Enum))]
		}
		return sg.stringInstance(s, flip)
	case "boolean":
		return g.R.Bool()
	case "integer", "number":
		v := g.numberNear(d, flip)
		if d.Type == "integer" && !v.IsInt() && !g.R.P(flip) {
			v = new(big.Rat).SetInt(new(big.Int).Quo(v.Num(), v.Denom()))
		}
		// choose a carrier which represents the value exactly
		// (beyond +-2^53 only integer kinds: a float is not a JSON integer there, by the library's stated limit)
		big53 := new(big.Rat).Abs(v).Cmp(new(big.Rat).SetInt64(1<<53)) > 0
		for try := 0; try < 12; try++ {
			k := NumKinds[g.R.Intn(len(NumKinds))]
			if big53 && (k == reflect.Float32 || k == reflect.Float64) {
				continue
			}
			if c, ok := Carry(v, k); ok {
				return c
			}
		}
		if big53 {
			if c, ok := Carry(v, reflect.Uint64); ok {
				return c
			}
			if c, ok := Carry(v, reflect.Int64); ok {
				return c
			}
		}
		f, _ := v.Float64()
		return f
	case "array":
		n := g.R.Range(0, 3)
		if d.MinItems != nil && g.R.P(0.4) {
			n = int(*d.MinItems)
			if g.R.P(flip) {
				n--
			}
		}
		if d.MaxItems != nil && g.R.P(0.4) {
			n = int(*d.MaxItems)
			if g.R.P(flip) {
				n++
			}
		}
		if n < 0 {
			n = 0
		}
		elems := make([]any, n)
		for i := range elems {
			elems[i] = g.Value(d.Items, flip)
		}
		if d.UniqueItems && n >= 2 && g.R.P(flip+0.1) {
			elems[n-1] = elems[0]
		}
		if g.ByteSlices && n > 0 && g.R.P(0.5) {
			if bs, ok := byteSlice(elems); ok {
				return bs
			}
		}
		return TypedSlice(elems, g.R.P(0.5))
	}
	return nil
}

// byteSlice turns elements which all are uint8 into a []uint8.
func byteSlice(elems []any) ([]uint8, bool) {
	out := make([]uint8, len(elems))
	for i, e := range elems {
		b, ok := e.(uint8)
		if !ok {
			return nil, false
		}
		out[i] = b
	}
	return out, true
}

// TypedSlice turns []any into a homogeneous typed slice when all elements share one Go type
// (and typed is requested); otherwise it stays []interface{}.
func TypedSlice(elems []any, typed bool) any {
	if !typed || len(elems) == 0 {
		return elems
	}
	t := reflect.TypeOf(elems[0])
	if t == nil || t.Kind() == reflect.Uint8 {
		return elems // []uint8 is []byte: a binary string for the library, outside the stated domain
	}
	for _, e := range elems[1:] {
		if reflect.TypeOf(e) != t {
			return elems
		}
	}
	s := reflect.MakeSlice(reflect.SliceOf(t), len(elems), len(elems))
	for i, e := range elems {
		s.Index(i).Set(reflect.ValueOf(e))
	}
	return s.Interface()
}
