package gen

import (
	"fmt"
	"encoding/json"
	"math/big"
	"strings"
)

// Instance derives an instance from a schema: it walks the schema and tries to satisfy it,
// landing on the boundaries of the constraints; with probability `flip` (per decision) it
// deliberately lands on the wrong side of one boundary. root is the document for $ref.
func (g *SchemaGen) Instance(root map[string]any, schema any, depth int, flip float64) any {
	s, ok := schema.(map[string]any)
	if !ok || depth > 8 {
		return g.FreeValue(1)
	}
	if ref, ok := s["$ref"].(string); ok {
		if t := resolveLocal(root, ref); t != nil {
			return g.Instance(root, t, depth+1, flip)
		}
		return g.FreeValue(1)
	}
	if g.R.P(0.04) {
		return nil // null anywhere: exercises the null-instance paths
	}
	if g.R.P(0.05) {
		return g.FreeValue(2)
	}
	if e, ok := s["enum"].([]any); ok && len(e) > 0 && !g.R.P(flip) {
		return clone(e[g.R.Intn(len(e))])
	}
	// composition: follow one branch most of the time
	for _, kw := range []string{"allOf", "anyOf", "oneOf"} {
		if subs, ok := s[kw].([]any); ok && len(subs) > 0 && g.R.P(0.7) {
			v := g.Instance(root, subs[g.R.Intn(len(subs))], depth+1, flip)
			if kw == "allOf" {
				if o, isObj := v.(map[string]any); isObj {
					for _, other := range subs {
						if o2, ok := g.Instance(root, other, depth+1, flip).(map[string]any); ok {
							for k, vv := range o2 {
								if _, has := o[k]; !has {
									o[k] = vv
								}
							}
						}
					}
				}
			}
			if base, isObj := v.(map[string]any); isObj && hasObjectKeywords(s) {
				if own, ok := g.objectInstance(root, s, depth, flip).(map[string]any); ok {
					for k, vv := range own {
						if _, has := base[k]; !has {
							base[k] = vv
						}
					}
				}
			}
			return v
		}
	}
	t := g.pickType(s)
	switch t {
	case "null":
		return nil
	case "boolean":
		return g.R.Bool()
	case "string":
		return g.stringInstance(s, flip)
	case "number", "integer":
		return g.numberInstance(s, t, flip)
	case "array":
		return g.arrayInstance(root, s, depth, flip)
	case "object":
		return g.objectInstance(root, s, depth, flip)
	}
	return g.FreeValue(2)
}

func hasObjectKeywords(s map[string]any) bool {
	for _, k := range []string{"properties", "required", "patternProperties", "additionalProperties", "dependencies"} {
		if _, ok := s[k]; ok {
			return true
		}
	}
	return false
}

func (g *SchemaGen) pickType(s map[string]any) string {
	var types []string
	switch t := s["type"].(type) {
	case string:
		types = []string{t}
	case []any:
		for _, e := range t {
			if x, ok := e.(string); ok {
				types = append(types, x)
			}
		}
	}
	if len(types) > 0 {
		if g.R.P(0.08) {
			return g.R.Pick("null", "boolean", "string", "number", "integer", "array", "object")
		}
		return types[g.R.Intn(len(types))]
	}
	// infer from the keywords present
	switch {
	case hasObjectKeywords(s) || has(s, "minProperties") || has(s, "maxProperties"):
		return "object"
	case has(s, "items") || has(s, "minItems") || has(s, "maxItems") || has(s, "uniqueItems") || has(s, "additionalItems"):
		return "array"
	case has(s, "minLength") || has(s, "maxLength") || has(s, "pattern") || has(s, "format"):
		return "string"
	case has(s, "minimum") || has(s, "maximum") || has(s, "multipleOf"):
		return "number"
	}
	return g.R.Pick("null", "boolean", "string", "number", "array", "object")
}

func has(s map[string]any, k string) bool { _, ok := s[k]; return ok }

func intKw(s map[string]any, k string) (int, bool) {
	if n, ok := s[k].(json.Number); ok {
		if i, err := n.Int64(); err == nil {
			return int(i), true
		}
	}
	return 0, false
}

var runePool = []string{"a", "b", "c", "é", "日", "o", "x", "1", "-", "."}

func (g *SchemaGen) stringInstance(s map[string]any, flip float64) string {
	if f, ok := s["format"].(string); ok && g.R.P(0.7) {
		for _, ff := range Formats {
			if ff.Name == f {
				if g.R.P(flip) {
					return ff.No[g.R.Intn(len(ff.No))]
				}
				return ff.Yes[g.R.Intn(len(ff.Yes))]
			}
		}
	}
	if p, ok := s["pattern"].(string); ok && g.R.P(0.7) {
		for _, pp := range Patterns {
			if pp.P == BasePattern(p) {
				if g.R.P(flip) {
					return pp.No[g.R.Intn(len(pp.No))]
				}
				return pp.Yes[g.R.Intn(len(pp.Yes))]
			}
		}
	}
	// length-directed, multi-byte runes so that byte length != rune count
	n := g.R.Range(0, 5)
	if m, ok := intKw(s, "minLength"); ok && g.R.Bool() {
		n = m
		if g.R.P(flip) && m > 0 {
			n = m - 1
		}
	}
	if m, ok := intKw(s, "maxLength"); ok && g.R.Bool() {
		n = m
		if g.R.P(flip) {
			n = m + 1
		}
	}
	if n > 40 {
		n = 40
	}
	var b strings.Builder
	for i := 0; i < n; i++ {
		b.WriteString(runePool[g.R.Intn(len(runePool))])
	}
	return b.String()
}

func ratKw(s map[string]any, k string) *big.Rat {
	if n, ok := s[k].(json.Number); ok {
		if r, ok := new(big.Rat).SetString(string(n)); ok {
			return r
		}
	}
	return nil
}

// decimal renders a rational as a decimal with at most 15 significant digits, or "" if it has none that short.
func decimal(r *big.Rat) string {
	for prec := 0; prec <= 9; prec++ {
		s := r.FloatString(prec)
		if back, ok := new(big.Rat).SetString(s); ok && back.Cmp(r) == 0 {
			digits := strings.Count(s, "") - 1 - strings.Count(s, "-") - strings.Count(s, ".")
			if digits > 15 {
				return ""
			}
			return s
		}
	}
	return ""
}

func (g *SchemaGen) numberInstance(s map[string]any, t string, flip float64) any {
	var cands []*big.Rat
	deltas := []string{"0", "1", "-1", "0.5", "-0.5", "0.001", "-0.001", "0.000001"}
	for _, k := range []string{"minimum", "maximum"} {
		if b := ratKw(s, k); b != nil {
			d, _ := new(big.Rat).SetString(deltas[g.R.Intn(len(deltas))])
			cands = append(cands, new(big.Rat).Add(b, d))
		}
	}
	if m := ratKw(s, "multipleOf"); m != nil && m.Sign() > 0 {
		k := new(big.Rat).SetInt64(int64(g.R.Range(-3, 40)))
		if g.R.P(0.15) {
			k.SetInt64(int64(g.R.Range(1000000, 4000000)))
		}
		v := new(big.Rat).Mul(m, k)
		if g.R.P(flip) {
			half := new(big.Rat).Quo(m, big.NewRat(2, 1))
			v.Add(v, half)
		}
		cands = append(cands, v)
	}
	if len(cands) > 0 && g.R.P(0.8) {
		c := cands[g.R.Intn(len(cands))]
		if t == "integer" && !g.R.P(flip) && !c.IsInt() {
			c = new(big.Rat).SetInt(new(big.Int).Quo(c.Num(), c.Denom()))
		}
		if d := decimal(c); d != "" {
			return N(d)
		}
	}
	if t == "integer" && !g.R.P(flip) {
		return I(g.R.Range(-12, 120))
	}
	return g.number()
}

func (g *SchemaGen) arrayInstance(root, s map[string]any, depth int, flip float64) any {
	n := g.R.Range(0, 3)
	tuple, isTuple := s["items"].([]any)
	if isTuple && g.R.P(0.7) {
		n = len(tuple) + g.R.Range(-1, 2)
	}
	if m, ok := intKw(s, "minItems"); ok && g.R.P(0.4) {
		n = m
		if g.R.P(flip) {
			n = m - 1
		}
	}
	if m, ok := intKw(s, "maxItems"); ok && g.R.P(0.4) {
		n = m
		if g.R.P(flip) {
			n = m + 1
		}
	}
	if n < 0 {
		n = 0
	}
	if n > 6 {
		n = 6
	}
	// one array in twenty-five is long (17-70 elements): size-dependent code paths (scans which switch to a set,
	// indexed de-duplication of messages, ...) are not reached by arrays of a handful of elements
	_, hasMax := intKw(s, "maxItems")
	wide := !g.O.NoWide && !isTuple && (!hasMax || g.R.P(0.3)) && g.R.P(0.04)
	if wide {
		n = g.R.Range(17, 70)
		g.feat("wide-array")
	}
	out := make([]any, n)
	_, itemsIsSchema := s["items"].(map[string]any)
	if wide && (!itemsIsSchema || g.R.P(0.3)) {
		// pairwise distinct scalars with a few nulls, containers and strings in between; sometimes one duplicate
		for i := range out {
			switch g.R.Weighted(14, 2, 2, 2) {
			case 0:
				out[i] = I(i)
			case 1:
				out[i] = nil
			case 2:
				out[i] = g.FreeValue(1)
			default:
				out[i] = fmt.Sprintf("s%d", i)
			}
		}
		if g.R.P(flip + 0.1) {
			out[n-1] = clone(out[g.R.Intn(n-1)])
		}
		return out
	}
	for i := range out {
		switch {
		case isTuple && i < len(tuple):
			out[i] = g.Instance(root, tuple[i], depth+1, flip)
		case isTuple:
			if ai, ok := s["additionalItems"].(map[string]any); ok {
				out[i] = g.Instance(root, ai, depth+1, flip)
			} else {
				out[i] = g.FreeValue(1)
			}
		default:
			if it, ok := s["items"].(map[string]any); ok {
				out[i] = g.Instance(root, it, depth+1, flip)
			} else {
				out[i] = g.FreeValue(1)
			}
		}
	}
	if u, _ := s["uniqueItems"].(bool); u && n >= 2 && g.R.P(flip+0.1) {
		out[n-1] = clone(out[0])
	}
	return out
}

func (g *SchemaGen) objectInstance(root, s map[string]any, depth int, flip float64) any {
	o := map[string]any{}
	props, _ := s["properties"].(map[string]any)
	for _, k := range sortedKeys(props) {
		if g.R.P(0.6) {
			o[k] = g.Instance(root, props[k], depth+1, flip)
		}
	}
	if req, ok := s["required"].([]any); ok {
		for _, r := range req {
			k, _ := r.(string)
			if _, present := o[k]; !present && !g.R.P(flip) {
				if ps, ok := props[k]; ok {
					o[k] = g.Instance(root, ps, depth+1, flip)
				} else {
					o[k] = g.FreeValue(1)
				}
			}
		}
	}
	pats, _ := s["patternProperties"].(map[string]any)
	for _, p := range sortedKeys(pats) {
		if !g.R.P(0.6) {
			continue
		}
		for _, pp := range Patterns {
			if pp.P == BasePattern(p) {
				k := pp.Yes[g.R.Intn(len(pp.Yes))]
				o[k] = g.Instance(root, pats[p], depth+1, flip)
			}
		}
	}
	if g.R.P(0.35) {
		// an additional member
		k := g.name()
		if ap, ok := s["additionalProperties"].(map[string]any); ok {
			if _, present := o[k]; !present {
				o[k] = g.Instance(root, ap, depth+1, flip)
			}
		} else if _, present := o[k]; !present {
			o[k] = g.FreeValue(1)
		}
	}
	if !g.O.NoWide && g.R.P(0.04) {
		// one object in twenty-five is wide: 14-40 further members (named so that some pattern properties of the
		// pattern pool match them), most of them failing whatever describes them
		prefix := g.R.Pick("k", "a", "x-", "n", "ab")
		for i, n := 0, g.R.Range(14, 40); i < n; i++ {
			k := fmt.Sprintf("%s%02d", prefix, i)
			if ap, ok := s["additionalProperties"].(map[string]any); ok && g.R.P(0.5) {
				o[k] = g.Instance(root, ap, depth+1, flip)
			} else {
				o[k] = g.FreeValue(1)
			}
		}
		g.feat("wide-object")
	}
	if deps, ok := s["dependencies"].(map[string]any); ok {
		for _, k := range sortedKeys(deps) {
			if g.R.P(0.75) {
				if _, present := o[k]; !present {
					o[k] = g.FreeValue(1)
				}
				if names, ok := deps[k].([]any); ok && !g.R.P(flip) {
					for _, nn := range names {
						if nk, ok := nn.(string); ok {
							if _, present := o[nk]; !present {
								o[nk] = g.FreeValue(1)
							}
						}
					}
				}
			}
		}
	}
	if m, ok := intKw(s, "maxProperties"); ok && len(o) > m && !g.R.P(flip) {
		for _, k := range sortedKeys(o) {
			if len(o) <= m {
				break
			}
			delete(o, k)
		}
	}
	if m, ok := intKw(s, "minProperties"); ok && !g.R.P(flip) {
		for i := 0; len(o) < m && i < 8; i++ {
			o[Names[i]] = g.FreeValue(0)
		}
	}
	return o
}

func sortedKeys(m map[string]any) []string {
	out := make([]string, 0, len(m))
	for k := range m {
		out = append(out, k)
	}
	// insertion sort: tiny maps
	for i := 1; i < len(out); i++ {
		for j := i; j > 0 && out[j] < out[j-1]; j-- {
			out[j], out[j-1] = out[j-1], out[j]
		}
	}
	return out
}

func resolveLocal(root map[string]any, ref string) any {
	if !strings.HasPrefix(ref, "#/") {
		if ref == "#" {
			return root
		}
		return nil
	}
	var cur any = root
	for _, tok := range strings.Split(ref[2:], "/") {
		m, ok := cur.(map[string]any)
		if !ok {
			return nil
		}
		cur, ok = m[tok]
		if !ok {
			return nil
		}
	}
	return cur
}

func clone(v any) any {
	switch x := v.(type) {
	case []any:
		out := make([]any, len(x))
		for i := range x {
			out[i] = clone(x[i])
		}
		return out
	case map[string]any:
		out := make(map[string]any, len(x))
		for k, e := range x {
			out[k] = clone(e)
		}
		return out
	}
	return v
}

// Clone deep-copies a raw JSON value.
func Clone(v any) any { return clone(v) }
