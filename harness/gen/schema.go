// Package gen holds the seeded generators: schemas, instances, numbers, simple schemas, specs.
// Everything is emitted as raw JSON values (map[string]any, []any, json.Number, ...) so that the
// same text can be handed to the library and to the reference model.
package gen

import (
	"encoding/json"
	"fmt"
	"strconv"
	"strings"

	"verif/harness/lib"
)

// N makes a JSON number from decimal text.
func N(s string) json.Number { return json.Number(s) }

// I makes a JSON number from an int.
func I(i int) json.Number { return json.Number(fmt.Sprintf("%d", i)) }

// Pattern pool: every pattern is valid for Go regexp; Yes/No are strings which match / do not match.
type Pat struct {
	P       string
	Yes, No []string
}

var Patterns = []Pat{
	{"^a", []string{"a", "ab", "a.b", "aé"}, []string{"b", "ba", "", "Aa"}},
	{"b$", []string{"b", "ab", "éb"}, []string{"ba", "", "B"}},
	{"^[a-c]+$", []string{"abc", "a", "cab"}, []string{"abd", "", "a c", "é"}},
	{"o{2}", []string{"foo", "oo", "book"}, []string{"fo", "o o", ""}},
	{"^x-", []string{"x-1", "x-", "x-é"}, []string{"x", "ax-", ""}},
	{"\\d+", []string{"1", "a1", "007"}, []string{"a", "", "é"}},
	{"^.$", []string{"a", "é", "日"}, []string{"", "ab", "éé"}},
	{"(?i)^A", []string{"a", "A", "ab"}, []string{"b", "", "ba"}},
	{"é", []string{"é", "aéb"}, []string{"e", "", "E"}},
	{"^(foo|bar)$", []string{"foo", "bar"}, []string{"foobar", "fo", ""}},
	{"^[^.]+$", []string{"a", "ab", "x-1"}, []string{"a.b", "", "."}},
}

// PatternVariant returns the k-th variant of a pattern of the pool: the same expression with one more alternative
// (`|q<k>`) which none of the Yes / No strings contains, so it matches exactly what the base pattern matches on
// them.  Variants make the number of DISTINCT patterns a process compiles grow into the hundreds (caches with a
// bound, eviction, first-use order) without changing any verdict.
func PatternVariant(p string, k int) string { return fmt.Sprintf("%s|q%d", p, k) }

// BasePattern strips the variant suffix.
func BasePattern(p string) string {
	if i := strings.LastIndex(p, "|q"); i > 0 {
		if _, err := strconv.Atoi(p[i+2:]); err == nil {
			return p[:i]
		}
	}
	return p
}

// pickPattern draws a pattern of the pool, one time in three as one of 400 variants (pickPatternP: other shares).
func pickPattern(r *lib.Rand) string { return pickPatternP(r, 0.33, 400) }

func pickPatternP(r *lib.Rand, share float64, variants int) string {
	p := Patterns[r.Intn(len(Patterns))].P
	if r.P(share) {
		return PatternVariant(p, r.Intn(variants))
	}
	return p
}

// Format examples (formats known to strfmt.Default).
type Fmt struct {
	Name    string
	Yes, No []string
}

var Formats = []Fmt{
	{"date", []string{"2020-01-31", "1999-12-01"}, []string{"2020-13-01", "yesterday", ""}},
	{"date-time", []string{"2020-01-31T10:00:00Z", "2014-12-15T19:30:20.000Z"}, []string{"2020-01-31", "x", ""}},
	{"uuid", []string{"a8098c1a-f86e-11da-bd1a-00112444be1e"}, []string{"a8098c1a", "", "zzzzzzzz-f86e-11da-bd1a-00112444be1e"}},
	{"email", []string{"a@b.co", "joe.doe@example.com"}, []string{"a@", "ab", ""}},
	{"ipv4", []string{"192.168.0.1", "10.0.0.255"}, []string{"256.1.1.1", "1.2.3", ""}},
	{"hostname", []string{"example.com", "a-b.c"}, []string{"-a.com", "a_b..c", ""}},
	{"uri", []string{"http://example.com/a", "https://a.b/c?d=e"}, []string{"::", "", "a b"}},
	{"hexcolor", []string{"#fff", "#A0B1C2"}, []string{"fff", "#ggg", ""}},
}

// Property-name pool: small, so that instance members collide with schema members.
var Names = []string{"a", "b", "c", "foo", "bar", "x-1", "ünï", "a.b", "id", "$schema", "items", "default", "n0", "n1"}

// Number pool (decimal text, <= 15 significant digits, |x| < 2^53).
var Numbers = []string{
	"0", "1", "2", "3", "5", "7", "10", "12", "100", "-1", "-2", "-5", "-10",
	"0.5", "1.5", "2.5", "2.25", "0.1", "0.01", "0.3", "3.3", "4.35", "7.5", "-0.5", "-1.5", "-2.75",
	"1000000000.5", "1000000", "123456789012345", "-123456789012345", "900719925474099", "0.000001", "1e3", "1.0", "2.00", "-0.0", "12.5e1",
}

var multiples = []string{"1", "2", "3", "5", "0.5", "0.1", "0.01", "1.5", "2.5", "0.25", "10", "0.3"}

// SchemaOpts tunes G-schema.
type SchemaOpts struct {
	MaxDepth       int
	Defaults       bool // emit "default" (C12, C18); not part of C01's vocabulary
	Refs           bool // emit local $ref into root definitions
	FormatAnyType  bool // allow "format" next to a non-string explicit type (exercises finding format-relaxes-type)
	SpecialNames   bool // allow members named "id" / "$schema"
	NullHeavy      bool
	NoDeps         bool
	EmptyNames     bool // allow the empty string as a member name
	NoComposition  bool
	NoWide         bool // never produce long arrays / wide objects as instances
	OnlyObjectRoot bool
}

// SchemaGen generates one schema document.
type SchemaGen struct {
	R        *lib.Rand
	O        SchemaOpts
	defNames []string
	Features map[string]bool
}

func (g *SchemaGen) feat(f string) {
	if g.Features == nil {
		g.Features = map[string]bool{}
	}
	g.Features[f] = true
}

func (g *SchemaGen) name() string {
	if g.O.EmptyNames && g.R.P(0.06) {
		return ""
	}
	for {
		n := Names[g.R.Intn(len(Names))]
		if !g.O.SpecialNames && (n == "id" || n == "$schema") {
			continue
		}
		return n
	}
}

func (g *SchemaGen) number() json.Number { return N(Numbers[g.R.Intn(len(Numbers))]) }

func (g *SchemaGen) smallInt(lo, hi int) json.Number { return I(g.R.Range(lo, hi)) }

// Document generates a root schema (with "definitions" when refs are enabled).
func (g *SchemaGen) Document() map[string]any {
	if g.O.MaxDepth == 0 {
		g.O.MaxDepth = 4
	}
	var defs map[string]any
	if g.O.Refs && g.R.P(0.5) {
		n := g.R.Range(1, 3)
		defs = map[string]any{}
		// acyclic: definition i may only refer to definitions j < i
		all := []string{"d0", "d1", "d2"}
		for i := 0; i < n; i++ {
			g.defNames = all[:i]
			defs[all[i]] = g.Schema(g.O.MaxDepth - 2)
		}
		g.defNames = all[:n]
	}
	var root map[string]any
	if g.O.OnlyObjectRoot {
		root = g.objectSchema(0)
	} else {
		root = g.Schema(0)
	}
	if _, isRef := root["$ref"]; isRef && defs != nil {
		// a root which is itself a reference: wrap it, keeping definitions reachable at "#/definitions"
		root = map[string]any{"allOf": []any{root}}
	}
	if defs != nil {
		root["definitions"] = defs
	}
	return root
}

// Schema generates a schema node.
func (g *SchemaGen) Schema(depth int) map[string]any {
	leaf := depth >= g.O.MaxDepth
	w := []int{14, 10, 10, 4, 12, 12, 10, 6, 4, 5, 3}
	//         str num int bool obj arr comp enum empty ref multi
	if leaf {
		w[4], w[5], w[6] = 2, 2, 0
	}
	if g.O.NoComposition {
		w[6] = 0
	}
	if len(g.defNames) == 0 {
		w[9] = 0
	}
	switch g.R.Weighted(w...) {
	case 0:
		return g.stringSchema()
	case 1:
		return g.numberSchema("number")
	case 2:
		return g.numberSchema("integer")
	case 3:
		s := map[string]any{"type": "boolean"}
		if g.R.P(0.2) {
			s["enum"] = []any{g.R.Bool()}
			g.feat("enum")
		}
		return s
	case 4:
		return g.objectSchema(depth)
	case 5:
		return g.arraySchema(depth)
	case 6:
		return g.composition(depth)
	case 7:
		return g.enumSchema()
	case 8:
		if g.R.P(0.3) {
			return map[string]any{"type": "null"}
		}
		return map[string]any{}
	case 9:
		g.feat("$ref")
		return map[string]any{"$ref": "#/definitions/" + g.defNames[g.R.Intn(len(g.defNames))]}
	default:
		// multi-type, possibly with keywords foreign to some of the types
		types := []string{"string", "number", "integer", "boolean", "null", "object", "array"}
		g.R.Shuffle(len(types), func(i, j int) { types[i], types[j] = types[j], types[i] })
		n := g.R.Range(2, 3)
		tl := make([]any, n)
		for i := 0; i < n; i++ {
			tl[i] = types[i]
		}
		s := map[string]any{"type": tl}
		g.feat("multitype")
		if g.R.P(0.5) {
			s["minimum"] = g.number()
		}
		if g.R.P(0.5) {
			s["minLength"] = g.smallInt(0, 4)
		}
		if g.R.P(0.3) {
			s["minItems"] = g.smallInt(0, 3)
		}
		if g.R.P(0.3) {
			s["required"] = []any{g.name()}
		}
		return s
	}
}

func (g *SchemaGen) addDefault(s map[string]any, mk func() any) {
	if g.O.Defaults && g.R.P(0.5) {
		s["default"] = mk()
		g.feat("default")
	}
}

func (g *SchemaGen) stringSchema() map[string]any {
	s := map[string]any{"type": "string"}
	if g.R.P(0.15) {
		s["type"] = []any{"string", "null"}
	}
	if g.R.P(0.4) {
		s["minLength"] = g.smallInt(0, 4)
		g.feat("length")
	}
	if g.R.P(0.4) {
		s["maxLength"] = g.smallInt(0, 6)
		g.feat("length")
	}
	if g.R.P(0.35) {
		s["pattern"] = pickPattern(g.R)
		g.feat("pattern")
	}
	if g.R.P(0.2) {
		s["format"] = Formats[g.R.Intn(len(Formats))].Name
		g.feat("format")
		if g.O.FormatAnyType && g.R.P(0.25) {
			s["type"] = g.R.Pick("boolean", "object", "array", "null")
			g.feat("format-nonstring-type")
		}
	}
	if g.R.P(0.1) {
		s["enum"] = []any{g.strValue(), g.strValue()}
		g.feat("enum")
	}
	g.addDefault(s, func() any { return g.strValue() })
	return s
}

func (g *SchemaGen) strValue() string {
	return g.R.Pick("", "a", "ab", "abc", "foo", "é", "éé", "日本", "x-1", "a.b", "2020-01-31", "A", "bar", "abcdefg")
}

func (g *SchemaGen) numberSchema(t string) map[string]any {
	s := map[string]any{"type": t}
	if g.R.P(0.1) {
		s["type"] = []any{t, "null"}
	}
	if g.R.P(0.5) {
		s["minimum"] = g.number()
		g.feat("bounds")
		if g.R.P(0.3) {
			s["exclusiveMinimum"] = true
		}
	}
	if g.R.P(0.5) {
		s["maximum"] = g.number()
		g.feat("bounds")
		if g.R.P(0.3) {
			s["exclusiveMaximum"] = true
		}
	}
	if g.R.P(0.35) {
		s["multipleOf"] = N(multiples[g.R.Intn(len(multiples))])
		g.feat("multipleOf")
	}
	if g.R.P(0.1) {
		s["enum"] = []any{g.number(), g.number()}
		g.feat("enum")
	}
	g.addDefault(s, func() any { return g.number() })
	return s
}

func (g *SchemaGen) enumSchema() map[string]any {
	g.feat("enum")
	n := g.R.Range(1, 4)
	vals := make([]any, n)
	for i := range vals {
		vals[i] = g.FreeValue(2)
	}
	if g.R.P(0.3) || g.O.NullHeavy && g.R.P(0.5) {
		vals[g.R.Intn(n)] = nil
		g.feat("enum-null")
	}
	s := map[string]any{"enum": vals}
	if g.R.P(0.2) {
		s["type"] = g.R.Pick("string", "number", "object", "array", "null", "boolean", "integer")
	}
	return s
}

func (g *SchemaGen) objectSchema(depth int) map[string]any {
	s := map[string]any{}
	if g.R.P(0.7) {
		s["type"] = "object"
	}
	if g.R.P(0.8) {
		props := map[string]any{}
		for i, n := 0, g.R.Range(1, 3); i < n; i++ {
			props[g.name()] = g.Schema(depth + 1)
		}
		s["properties"] = props
		g.feat("properties")
	}
	if g.R.P(0.35) {
		pp := map[string]any{}
		for i, n := 0, g.R.Range(1, 2); i < n; i++ {
			pp[pickPattern(g.R)] = g.Schema(depth + 1)
		}
		s["patternProperties"] = pp
		g.feat("patternProperties")
	}
	switch g.R.Weighted(5, 3, 3, 1) {
	case 1:
		s["additionalProperties"] = false
		g.feat("additionalProperties:false")
	case 2:
		s["additionalProperties"] = g.Schema(depth + 1)
		g.feat("additionalProperties:schema")
	case 3:
		s["additionalProperties"] = true
	}
	if g.R.P(0.4) {
		n := g.R.Range(1, 2)
		req := make([]any, n)
		for i := range req {
			req[i] = g.name()
		}
		s["required"] = req
		g.feat("required")
	}
	if g.R.P(0.2) {
		s["minProperties"] = g.smallInt(0, 3)
		g.feat("nprops")
	}
	if g.R.P(0.2) {
		s["maxProperties"] = g.smallInt(0, 4)
		g.feat("nprops")
	}
	if !g.O.NoDeps && g.R.P(0.2) {
		deps := map[string]any{}
		for i, n := 0, g.R.Range(1, 3); i < n; i++ {
			if g.R.Bool() {
				deps[g.name()] = []any{g.name()}
				g.feat("dependencies:names")
			} else {
				deps[g.name()] = g.Schema(depth + 1)
				g.feat("dependencies:schema")
			}
		}
		if len(deps) >= 2 {
			g.feat("dependencies:several")
		}
		s["dependencies"] = deps
	}
	if g.O.Defaults && g.R.P(0.15) {
		s["default"] = map[string]any{}
	}
	return s
}

func (g *SchemaGen) arraySchema(depth int) map[string]any {
	s := map[string]any{}
	if g.R.P(0.7) {
		s["type"] = "array"
	}
	switch g.R.Weighted(4, 5, 1) {
	case 0:
		s["items"] = g.Schema(depth + 1)
		g.feat("items:schema")
		if g.R.P(0.2) {
			// additionalItems next to a single-schema items is ignored by draft 4
			if g.R.Bool() {
				s["additionalItems"] = false
			} else {
				s["additionalItems"] = g.Schema(depth + 1)
			}
			g.feat("additionalItems-ignored")
		}
	case 1:
		n := g.R.Range(1, 3)
		if g.R.P(0.08) {
			n = 0 // an empty tuple: every element lies beyond it
		}
		t := make([]any, n)
		for i := range t {
			t[i] = g.Schema(depth + 1)
		}
		s["items"] = t
		g.feat(fmt.Sprintf("tuple:%d", n))
		switch g.R.Weighted(2, 3, 4) {
		case 1:
			s["additionalItems"] = false
			g.feat("additionalItems:false")
		case 2:
			s["additionalItems"] = g.Schema(depth + 1)
			g.feat("additionalItems:schema")
		}
	case 2:
		if g.R.P(0.5) {
			// additionalItems without items is ignored by draft 4
			if g.R.Bool() {
				s["additionalItems"] = false
			} else {
				s["additionalItems"] = g.Schema(depth + 1)
			}
			g.feat("additionalItems-without-items")
		}
	}
	if g.R.P(0.3) {
		s["minItems"] = g.smallInt(0, 3)
		g.feat("nitems")
	}
	if g.R.P(0.3) {
		s["maxItems"] = g.smallInt(0, 4)
		g.feat("nitems")
	}
	if g.R.P(0.25) {
		s["uniqueItems"] = true
		g.feat("uniqueItems")
	}
	if g.O.Defaults && g.R.P(0.1) {
		s["default"] = []any{}
	}
	return s
}

func (g *SchemaGen) composition(depth int) map[string]any {
	s := map[string]any{}
	if g.R.P(0.3) {
		// composition next to own keywords
		s = g.Schema(g.O.MaxDepth) // a leaf schema as base
		if _, isRef := s["$ref"]; isRef {
			s = map[string]any{}
		}
	}
	subs := func() []any {
		n := g.R.Range(1, 3)
		out := make([]any, n)
		for i := range out {
			out[i] = g.Schema(depth + 1)
		}
		return out
	}
	for n := 0; n < 1 || g.R.P(0.25); n++ {
		switch g.R.Intn(4) {
		case 0:
			s["allOf"] = subs()
			g.feat("allOf")
		case 1:
			s["anyOf"] = subs()
			g.feat("anyOf")
		case 2:
			s["oneOf"] = subs()
			g.feat("oneOf")
		case 3:
			s["not"] = g.Schema(depth + 1)
			g.feat("not")
		}
	}
	return s
}

// FreeValue generates an arbitrary JSON value.
func (g *SchemaGen) FreeValue(depth int) any {
	w := []int{3, 2, 6, 6, 3, 3}
	if depth <= 0 {
		w[4], w[5] = 0, 0
	}
	switch g.R.Weighted(w...) {
	case 0:
		return nil
	case 1:
		return g.R.Bool()
	case 2:
		return g.number()
	case 3:
		return g.strValue()
	case 4:
		n := g.R.Range(0, 3)
		a := make([]any, n)
		for i := range a {
			a[i] = g.FreeValue(depth - 1)
		}
		return a
	default:
		n := g.R.Range(0, 3)
		o := map[string]any{}
		for i := 0; i < n; i++ {
			o[g.name()] = g.FreeValue(depth - 1)
		}
		return o
	}
}

// JSON renders a raw value as JSON text (object keys sorted by encoding/json).
func JSON(v any) []byte {
	b, err := json.Marshal(v)
	if err != nil {
		panic(err)
	}
	return b
}

// Join is a helper for evidence tags.
func Join(m map[string]bool) []string {
	out := make([]string, 0, len(m))
	for k := range m {
		out = append(out, k)
	}
	return out
}

var _ = strings.Join
