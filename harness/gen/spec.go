package gen

import (
	"fmt"
	"sort"
	"strings"

	"verif/harness/lib"
)

// SpecGen generates Swagger 2.0 documents which are valid by construction, and rule-breaking edits.
type SpecGen struct {
	R   *lib.Rand
	Tag string // unique tag woven into names (leak detection in histories)
	// NoRefs builds a document without a single $ref (everything inline)
	NoRefs bool

	Doc      map[string]any
	defNames []string
	ops      []*specOp
	nOp      int
}

type specOp struct {
	path, method string
	op           map[string]any
	pathParams   []string
}

func (g *SpecGen) n(prefix string) string { return prefix + g.Tag }

// simpleTypeSchema returns a simple-typed schema (for properties, items) and a valid value for it.
func (g *SpecGen) scalar() (map[string]any, any, any) {
	switch g.R.Intn(5) {
	case 0:
		return map[string]any{"type": "string", "minLength": I(1), "maxLength": I(8)}, "abc", ""
	case 1:
		return map[string]any{"type": "integer", "format": "int32", "minimum": I(0), "maximum": I(100)}, I(7), I(101)
	case 2:
		return map[string]any{"type": "number", "maximum": N("10.5")}, N("2.5"), I(11)
	case 3:
		return map[string]any{"type": "boolean"}, true, "yes"
	default:
		return map[string]any{"type": "string", "enum": []any{"a", "b", "c"}}, "b", "z"
	}
}

// objectSchema builds an object schema of the given depth; names are tagged.
func (g *SpecGen) objectSchema(depth int, refs bool) map[string]any {
	props := map[string]any{}
	n := g.R.Range(1, 3)
	var names []string
	for i := 0; i < n; i++ {
		name := fmt.Sprintf("f%d%s", i, g.Tag)
		names = append(names, name)
		switch {
		case depth > 0 && g.R.P(0.3):
			props[name] = g.objectSchema(depth-1, refs)
		case depth > 0 && g.R.P(0.3):
			s, _, _ := g.scalar()
			props[name] = map[string]any{"type": "array", "items": s}
		case refs && len(g.defNames) > 0 && g.R.P(0.3):
			props[name] = map[string]any{"$ref": "#/definitions/" + g.defNames[g.R.Intn(len(g.defNames))]}
		case refs && len(g.defNames) > 0 && g.R.P(0.15):
			// a reference with siblings (description / example) at an items or additionalProperties position
			ref := map[string]any{"$ref": "#/definitions/" + g.defNames[g.R.Intn(len(g.defNames))], "description": "ref with siblings", "example": map[string]any{}}
			if g.R.Bool() {
				props[name] = map[string]any{"type": "array", "items": ref}
			} else {
				props[name] = map[string]any{"type": "object", "additionalProperties": ref}
			}
		default:
			s, _, _ := g.scalar()
			props[name] = s
		}
	}
	s := map[string]any{"type": "object", "properties": props}
	if g.R.P(0.5) {
		s["required"] = []any{names[0]}
	}
	if g.R.P(0.15) {
		// readOnly members (a required readOnly member only warns)
		if pm, ok := props[names[len(names)-1]].(map[string]any); ok {
			if _, isRef := pm["$ref"]; !isRef {
				pm["readOnly"] = true
			}
		}
	}
	switch g.R.Intn(10) {
	case 0, 1:
		sc, _, _ := g.scalar()
		s["additionalProperties"] = sc
	case 2:
		// a required name which only the (object-valued, possibly readOnly) additionalProperties schema defines
		extra := "extra" + g.Tag
		ap := map[string]any{"type": "object", "properties": map[string]any{extra: map[string]any{"type": "string"}}}
		if g.R.Bool() {
			ap["readOnly"] = true
		}
		s["additionalProperties"] = ap
		req, _ := s["required"].([]any)
		s["required"] = append(req, extra)
	}
	return s
}

// Clean builds a valid specification.
func (g *SpecGen) Clean() map[string]any {
	doc := map[string]any{
		"swagger": "2.0",
		"info":    map[string]any{"title": "t" + g.Tag, "version": "1.0"},
	}
	g.Doc = doc
	// definitions (acyclic: definition i only refers to definitions j<i)
	defs := map[string]any{}
	nd := g.R.Range(2, 4)
	for i := 0; i < nd; i++ {
		name := fmt.Sprintf("D%d%s", i, g.Tag)
		if i > 0 && g.R.P(0.35) && !g.NoRefs {
			// inheritance: allOf [ $ref base, own properties ]
			base := g.defNames[g.R.Intn(len(g.defNames))]
			own := map[string]any{"type": "object", "properties": map[string]any{fmt.Sprintf("own%d%s", i, g.Tag): map[string]any{"type": "string"}}}
			defs[name] = map[string]any{"allOf": []any{map[string]any{"$ref": "#/definitions/" + base}, own}}
		} else {
			defs[name] = g.objectSchema(g.R.Range(0, 2), !g.NoRefs)
		}
		g.defNames = append(g.defNames, name)
	}
	doc["definitions"] = defs

	// shared parameters and responses
	sharedParam := g.n("limit")
	doc["parameters"] = map[string]any{sharedParam: map[string]any{"name": sharedParam, "in": "query", "type": "integer", "format": "int32", "minimum": I(1), "default": I(10)}}
	sharedResp := g.n("Err")
	if g.NoRefs {
		doc["responses"] = map[string]any{sharedResp: map[string]any{"description": "error", "schema": map[string]any{"type": "object"}}}
	} else {
		doc["responses"] = map[string]any{sharedResp: map[string]any{"description": "error", "schema": map[string]any{"$ref": "#/definitions/" + g.defNames[0]}}}
	}

	paths := map[string]any{}
	np := g.R.Range(1, 3)
	for pi := 0; pi < np; pi++ {
		nph := g.R.Range(0, 2)
		seg := fmt.Sprintf("/r%d%s", pi, g.Tag)
		var pps []string
		for k := 0; k < nph; k++ {
			pp := fmt.Sprintf("id%d", k)
			pps = append(pps, pp)
			if k == 1 && g.R.P(0.3) {
				seg += "-{" + pp + "}" // two placeholders in one segment
			} else {
				seg += "/{" + pp + "}"
			}
		}
		if g.R.P(0.3) {
			seg += "/tail"
		}
		item := map[string]any{}
		methods := []string{"get", "post", "put", "delete"}
		g.R.Shuffle(len(methods), func(i, j int) { methods[i], methods[j] = methods[j], methods[i] })
		for _, m := range methods[:g.R.Range(1, 2)] {
			item[m] = g.operation(seg, m, pps, sharedParam, sharedResp)
		}
		paths[seg] = item
	}
	doc["paths"] = paths
	return doc
}

func (g *SpecGen) operation(path, method string, pathParams []string, sharedParam, sharedResp string) map[string]any {
	g.nOp++
	op := map[string]any{"operationId": fmt.Sprintf("op%d%s", g.nOp, g.Tag)}
	var params []any
	for _, pp := range pathParams {
		t := "string"
		if g.R.Bool() {
			t = "integer"
		}
		params = append(params, map[string]any{"name": pp, "in": "path", "required": true, "type": t})
	}
	if g.R.P(0.5) && !g.NoRefs {
		params = append(params, map[string]any{"$ref": "#/parameters/" + sharedParam})
	}
	if g.R.P(0.5) {
		s, good, _ := g.scalar()
		p := map[string]any{"name": g.n("q"), "in": "query"}
		for k, v := range s {
			p[k] = v
		}
		if g.R.P(0.5) {
			p["default"] = good
		}
		params = append(params, p)
	}
	if g.R.P(0.3) {
		s, _, _ := g.scalar()
		params = append(params, map[string]any{"name": g.n("tags"), "in": "query", "type": "array", "items": s, "collectionFormat": "csv"})
	}
	if g.R.P(0.15) {
		// legal but warned about: a required parameter with a default; a validation keyword foreign to the type
		params = append(params, map[string]any{"name": g.n("rq"), "in": "query", "type": "integer", "required": true, "default": I(3)})
	}
	if g.R.P(0.15) {
		params = append(params, map[string]any{"name": g.n("odd"), "in": "query", "type": "string", "maximum": I(10)})
	}
	if g.R.P(0.3) {
		params = append(params, map[string]any{"name": "X-" + g.n("hdr"), "in": "header", "type": "string", "pattern": "^[a-z]+$"})
	}
	if method != "get" && method != "delete" {
		if g.R.P(0.6) {
			var schema map[string]any
			if g.R.Bool() && !g.NoRefs {
				schema = map[string]any{"$ref": "#/definitions/" + g.defNames[g.R.Intn(len(g.defNames))]}
			} else {
				schema = g.objectSchema(1, !g.NoRefs)
			}
			params = append(params, map[string]any{"name": g.n("body"), "in": "body", "required": true, "schema": schema})
		} else if g.R.P(0.5) {
			op["consumes"] = []any{"application/x-www-form-urlencoded"}
			params = append(params, map[string]any{"name": g.n("form"), "in": "formData", "type": "string"})
		}
	}
	if len(params) > 0 {
		op["parameters"] = params
	}
	responses := map[string]any{}
	ok := map[string]any{"description": "ok"}
	if g.R.P(0.7) {
		if g.R.Bool() && !g.NoRefs {
			ok["schema"] = map[string]any{"$ref": "#/definitions/" + g.defNames[g.R.Intn(len(g.defNames))]}
		} else {
			s, good, _ := g.scalar()
			ok["schema"] = map[string]any{"type": "array", "items": s}
			if g.R.P(0.5) {
				ok["examples"] = map[string]any{"application/json": []any{good}}
			}
		}
	}
	if g.R.P(0.4) {
		ok["headers"] = map[string]any{"X-Rate" + g.Tag: map[string]any{"type": "integer", "format": "int32", "default": I(5), "maximum": I(100)}}
	}
	responses["200"] = ok
	if g.R.P(0.5) && !g.NoRefs {
		responses["default"] = map[string]any{"$ref": "#/responses/" + sharedResp}
	}
	op["responses"] = responses
	g.ops = append(g.ops, &specOp{path: path, method: method, op: op, pathParams: pathParams})
	return op
}

// Faults is the list of single rule-breaking edits.
var Faults = []string{
	"dup-operation-id", "path-param-missing", "path-param-extra", "path-param-not-required", "path-param-dup-placeholder",
	"dup-param-inline", "dup-param-via-ref", "dup-param-two-refs", "two-body-params", "two-body-params-ref", "body-and-formdata",
	"array-no-items-param", "array-no-items-header", "array-no-items-nested-items", "array-no-items-body-schema", "array-no-items-response-schema",
	"required-undefined-property", "required-undefined-beside-scalar-additionalProperties", "unresolvable-ref-definition", "unresolvable-ref-parameter", "unresolvable-ref-response",
	"dup-inherited-property", "dup-inherited-property-beside-allof", "circular-ancestry-direct", "circular-ancestry-indirect", "circular-ancestry-pure-ref-cycle", "circular-ancestry-self-inheriting-ancestor",
	"overlapping-paths", "invalid-pattern-param", "invalid-pattern-header", "invalid-pattern-schema", "invalid-pattern-items",
	"missing-paths", "empty-placeholder",
	"array-no-items-referenced-response-typelist", "two-body-params-go-name-collision", "dup-param-path-item-level",
	// shapes which the Swagger meta-schema pre-checks let through, so that only the rule itself can report them
	"array-empty-items-header-among-responses", "array-typelist-no-items-response-schema-among-responses",
	"array-empty-items-param", "array-empty-nested-items-param", "array-empty-nested-items-header",
}

func (g *SpecGen) params(op map[string]any) []any {
	ps, _ := op["parameters"].([]any)
	return ps
}

func (g *SpecGen) anyOp() *specOp { return g.ops[g.R.Intn(len(g.ops))] }

func (g *SpecGen) writableOp() *specOp {
	for _, o := range g.ops {
		if o.method == "post" || o.method == "put" {
			return o
		}
	}
	return nil
}

// dropKind removes parameters of the given location from an operation.
func dropIn(ps []any, in ...string) []any {
	var out []any
	for _, p := range ps {
		m, _ := p.(map[string]any)
		keep := true
		for _, i := range in {
			if m["in"] == i {
				keep = false
			}
		}
		if keep {
			out = append(out, p)
		}
	}
	return out
}

// Apply applies one fault to the clean document; false when the document has no site for it.
// strictOnly reports faults which are errors only with StrictPathParamUniqueness.
func (g *SpecGen) Apply(fault string) (applied bool, strictOnly bool) {
	doc := g.Doc
	defs := doc["definitions"].(map[string]any)
	paths, _ := doc["paths"].(map[string]any)
	switch fault {
	case "dup-operation-id":
		if len(g.ops) < 2 {
			// add a second operation on a new path
			p := "/extra" + g.Tag
			paths[p] = map[string]any{"get": map[string]any{"operationId": g.ops[0].op["operationId"], "responses": map[string]any{"200": map[string]any{"description": "ok"}}}}
			return true, false
		}
		g.ops[1].op["operationId"] = g.ops[0].op["operationId"]
		return true, false
	case "path-param-missing":
		// prefer an operation with several placeholders, and drop any one of its path parameters
		cands := append([]*specOp{}, g.ops...)
		sort.SliceStable(cands, func(i, j int) bool { return len(cands[i].pathParams) > len(cands[j].pathParams) })
		for _, o := range cands {
			if len(o.pathParams) > 0 {
				var out []any
				victim := o.pathParams[g.R.Intn(len(o.pathParams))]
				for _, p := range g.params(o.op) {
					m, _ := p.(map[string]any)
					if m["in"] == "path" && m["name"] == victim {
						continue
					}
					out = append(out, p)
				}
				if len(out) > 0 {
					o.op["parameters"] = out
				} else {
					delete(o.op, "parameters")
				}
				return true, false
			}
		}
		return false, false
	case "path-param-extra":
		o := g.anyOp()
		o.op["parameters"] = append(g.params(o.op), map[string]any{"name": "ghost", "in": "path", "required": true, "type": "string"})
		return true, false
	case "path-param-not-required":
		for _, o := range g.ops {
			for _, p := range g.params(o.op) {
				if m, _ := p.(map[string]any); m["in"] == "path" {
					m["required"] = false
					return true, false
				}
			}
		}
		return false, false
	case "path-param-dup-placeholder":
		for _, o := range g.ops {
			if len(o.pathParams) > 0 {
				item := paths[o.path]
				delete(paths, o.path)
				np := o.path + "/again/{" + o.pathParams[0] + "}"
				if g.R.Bool() {
					np = "/{" + o.pathParams[0] + "}" + o.path
				}
				paths[np] = item
				return true, false
			}
		}
		return false, false
	case "dup-param-inline":
		o := g.anyOp()
		o.op["parameters"] = append(g.params(o.op), map[string]any{"name": "dup", "in": "query", "type": "string"}, map[string]any{"name": "dup", "in": "query", "type": "integer"})
		return true, false
	case "dup-param-path-item-level":
		// the same name + location twice among the parameters of a PATH ITEM (shared by its operations)
		o := g.anyOp()
		item := paths[o.path].(map[string]any)
		pp, _ := item["parameters"].([]any)
		item["parameters"] = append(pp, map[string]any{"name": "pdup", "in": "query", "type": "string"}, map[string]any{"name": "pdup", "in": "query", "type": "integer"})
		return true, false
	case "dup-param-via-ref":
		o := g.anyOp()
		sp := doc["parameters"].(map[string]any)
		var name string
		for k := range sp {
			name = k
		}
		ps := dropIn(g.params(o.op))
		// remove an existing reference to it, then add reference + inline twin (or the reference twice)
		var out []any
		for _, p := range ps {
			if m, _ := p.(map[string]any); m["$ref"] == nil {
				out = append(out, p)
			}
		}
		out = append(out, map[string]any{"$ref": "#/parameters/" + name})
		if g.R.Bool() {
			out = append(out, map[string]any{"$ref": "#/parameters/" + name})
		} else {
			out = append(out, map[string]any{"name": name, "in": "query", "type": "string"})
		}
		o.op["parameters"] = out
		return true, false
	case "dup-param-two-refs":
		// two different shared parameters with the same name and location, both referenced
		o := g.anyOp()
		sp := doc["parameters"].(map[string]any)
		sp["twinA"] = map[string]any{"name": "twin", "in": "query", "type": "string"}
		sp["twinB"] = map[string]any{"name": "twin", "in": "query", "type": "integer"}
		o.op["parameters"] = append(g.params(o.op), map[string]any{"$ref": "#/parameters/twinA"}, map[string]any{"$ref": "#/parameters/twinB"})
		return true, false
	case "two-body-params", "two-body-params-ref":
		o := g.writableOp()
		if o == nil {
			return false, false
		}
		ps := dropIn(g.params(o.op), "body", "formData")
		delete(o.op, "consumes")
		ps = append(ps, map[string]any{"name": "b1", "in": "body", "schema": map[string]any{"type": "object"}})
		if fault == "two-body-params" {
			ps = append(ps, map[string]any{"name": "b2", "in": "body", "schema": map[string]any{"type": "object"}})
		} else {
			doc["parameters"].(map[string]any)["sharedBody"] = map[string]any{"name": "b2", "in": "body", "schema": map[string]any{"type": "object"}}
			ps = append(ps, map[string]any{"$ref": "#/parameters/sharedBody"})
		}
		o.op["parameters"] = ps
		return true, false
	case "body-and-formdata":
		o := g.writableOp()
		if o == nil {
			return false, false
		}
		ps := dropIn(g.params(o.op), "body", "formData")
		ps = append(ps, map[string]any{"name": "b1", "in": "body", "schema": map[string]any{"type": "object"}}, map[string]any{"name": "f1", "in": "formData", "type": "string"})
		o.op["parameters"] = ps
		return true, false
	case "array-no-items-param":
		o := g.anyOp()
		o.op["parameters"] = append(g.params(o.op), map[string]any{"name": "arr", "in": "query", "type": "array"})
		return true, false
	case "array-no-items-header":
		o := g.anyOp()
		r200 := o.op["responses"].(map[string]any)["200"].(map[string]any)
		h, _ := r200["headers"].(map[string]any)
		if h == nil {
			h = map[string]any{}
			r200["headers"] = h
		}
		h["X-Arr"] = map[string]any{"type": "array"}
		return true, false
	case "array-no-items-nested-items":
		o := g.anyOp()
		o.op["parameters"] = append(g.params(o.op), map[string]any{"name": "arr2", "in": "query", "type": "array", "items": map[string]any{"type": "array"}})
		return true, false
	case "array-no-items-body-schema":
		o := g.writableOp()
		if o == nil {
			return false, false
		}
		ps := dropIn(g.params(o.op), "body", "formData")
		delete(o.op, "consumes")
		ps = append(ps, map[string]any{"name": "b1", "in": "body", "schema": map[string]any{"type": "array"}})
		o.op["parameters"] = ps
		return true, false
	case "array-no-items-response-schema":
		o := g.anyOp()
		r200 := o.op["responses"].(map[string]any)["200"].(map[string]any)
		delete(r200, "examples")
		if g.R.Bool() {
			r200["schema"] = map[string]any{"type": "array"}
		} else {
			r200["schema"] = map[string]any{"type": "array", "items": map[string]any{"type": "array"}}
		}
		return true, false
	case "required-undefined-property":
		for _, dn := range g.defNames {
			d := defs[dn].(map[string]any)
			if _, ok := d["properties"]; ok {
				if _, hasAP := d["additionalProperties"]; hasAP {
					continue
				}
				req, _ := d["required"].([]any)
				d["required"] = append(req, "nowhere"+g.Tag)
				return true, false
			}
		}
		return false, false
	case "required-undefined-beside-scalar-additionalProperties":
		// a schema-valued additionalProperties which does not itself define the name does not define it either
		defs["Loose"+g.Tag] = map[string]any{"type": "object", "properties": map[string]any{"p": map[string]any{"type": "string"}},
			"additionalProperties": map[string]any{"type": g.R.Pick("string", "integer", "boolean")}, "required": []any{"nowhere" + g.Tag}}
		return true, false
	case "unresolvable-ref-definition":
		d := defs[g.defNames[0]].(map[string]any)
		props, ok := d["properties"].(map[string]any)
		if !ok {
			return false, false
		}
		props["dangling"] = map[string]any{"$ref": "#/definitions/Nowhere" + g.Tag}
		return true, false
	case "unresolvable-ref-parameter":
		o := g.anyOp()
		o.op["parameters"] = append(g.params(o.op), map[string]any{"$ref": "#/parameters/nowhere"})
		return true, false
	case "unresolvable-ref-response":
		o := g.anyOp()
		o.op["responses"].(map[string]any)["404"] = map[string]any{"$ref": "#/responses/nowhere"}
		return true, false
	case "dup-inherited-property":
		base := g.defNames[0]
		bd := defs[base].(map[string]any)
		props, ok := bd["properties"].(map[string]any)
		if !ok {
			return false, false
		}
		var pn string
		for _, k := range sortedKeys(props) {
			pn = k
			break
		}
		defs["Child"+g.Tag] = map[string]any{"allOf": []any{map[string]any{"$ref": "#/definitions/" + base}, map[string]any{"type": "object", "properties": map[string]any{pn: map[string]any{"type": "string"}}}}}
		return true, false
	case "array-empty-items-header-among-responses", "array-typelist-no-items-response-schema-among-responses", "array-empty-nested-items-header":
		// the operation gets several status-code responses; the offending one is any of them
		o := g.anyOp()
		resps := o.op["responses"].(map[string]any)
		for _, code := range []string{"201", "202", "404"} {
			if _, exists := resps[code]; !exists {
				resps[code] = map[string]any{"description": "plain " + code}
			}
		}
		var codes []string
		for _, code := range sortedKeys(resps) {
			if m, ok := resps[code].(map[string]any); ok && code != "default" {
				if _, isRef := m["$ref"]; !isRef {
					codes = append(codes, code)
				}
			}
		}
		target := resps[codes[g.R.Intn(len(codes))]].(map[string]any)
		switch fault {
		case "array-typelist-no-items-response-schema-among-responses":
			delete(target, "examples")
			target["schema"] = map[string]any{"type": []any{"array"}}
		default:
			h, _ := target["headers"].(map[string]any)
			if h == nil {
				h = map[string]any{}
				target["headers"] = h
			}
			if fault == "array-empty-nested-items-header" {
				h["X-Arr"] = map[string]any{"type": "array", "items": map[string]any{"type": "array", "items": map[string]any{}}}
			} else {
				h["X-Arr"] = map[string]any{"type": "array", "items": map[string]any{}}
			}
		}
		return true, false
	case "array-empty-items-param":
		o := g.anyOp()
		o.op["parameters"] = append(g.params(o.op), map[string]any{"name": "arre", "in": "query", "type": "array", "items": map[string]any{}})
		return true, false
	case "array-empty-nested-items-param":
		o := g.anyOp()
		o.op["parameters"] = append(g.params(o.op), map[string]any{"name": "arre2", "in": "query", "type": "array", "items": map[string]any{"type": "array", "items": map[string]any{}}})
		return true, false
	case "array-no-items-referenced-response-typelist":
		// a response of the top-level section, referred to by an operation, whose schema is an array (type given as a
		// list, which the Swagger meta-schema pre-check does not look at) without items
		if g.NoRefs {
			return false, false
		}
		o := g.anyOp()
		doc["responses"].(map[string]any)["NoItems"+g.Tag] = map[string]any{"description": "array without items", "schema": map[string]any{"type": []any{"array"}}}
		o.op["responses"].(map[string]any)["409"] = map[string]any{"$ref": "#/responses/NoItems" + g.Tag}
		return true, false
	case "two-body-params-go-name-collision":
		// two body parameters whose names differ but map to the same Go identifier
		o := g.writableOp()
		if o == nil {
			return false, false
		}
		ps := dropIn(g.params(o.op), "body", "formData")
		delete(o.op, "consumes")
		o.op["parameters"] = append(ps, map[string]any{"name": "a-b", "in": "body", "schema": map[string]any{"type": "object"}}, map[string]any{"name": "a_b", "in": "body", "schema": map[string]any{"type": "object"}})
		return true, false
	case "dup-inherited-property-beside-allof":
		// the child declares the inherited name in its own "properties", beside (not inside) allOf
		base := g.defNames[0]
		bd := defs[base].(map[string]any)
		props, ok := bd["properties"].(map[string]any)
		if !ok {
			return false, false
		}
		var pn string
		for _, k := range sortedKeys(props) {
			pn = k
			break
		}
		defs["Child"+g.Tag] = map[string]any{"allOf": []any{map[string]any{"$ref": "#/definitions/" + base}}, "properties": map[string]any{pn: map[string]any{"type": "string"}, "ownc" + g.Tag: map[string]any{"type": "integer"}}}
		return true, false
	case "circular-ancestry-pure-ref-cycle":
		// a definition inherits from a cycle of definitions which are nothing but a $ref (length 1 to 3)
		a := "CA" + g.Tag
		n := g.R.Range(1, 3)
		for i := 0; i < n; i++ {
			defs[fmt.Sprintf("CR%d%s", i, g.Tag)] = map[string]any{"$ref": fmt.Sprintf("#/definitions/CR%d%s", (i+1)%n, g.Tag)}
		}
		defs[a] = map[string]any{"allOf": []any{map[string]any{"$ref": "#/definitions/CR0" + g.Tag}, map[string]any{"type": "object", "properties": map[string]any{"pa": map[string]any{"type": "string"}}}}}
		return true, false
	case "circular-ancestry-direct":
		a, b := "CA"+g.Tag, "CB"+g.Tag
		defs[a] = map[string]any{"allOf": []any{map[string]any{"$ref": "#/definitions/" + b}, map[string]any{"type": "object", "properties": map[string]any{"pa": map[string]any{"type": "string"}}}}}
		defs[b] = map[string]any{"allOf": []any{map[string]any{"$ref": "#/definitions/" + a}, map[string]any{"type": "object", "properties": map[string]any{"pb": map[string]any{"type": "string"}}}}}
		return true, false
	case "circular-ancestry-self-inheriting-ancestor":
		// the definition itself is not on the cycle: it inherits (directly or through one more level) from a
		// definition which inherits from itself
		a, b, m := "CA"+g.Tag, "CB"+g.Tag, "CM"+g.Tag
		mk := func(parent, own string) map[string]any {
			return map[string]any{"allOf": []any{map[string]any{"$ref": "#/definitions/" + parent}, map[string]any{"type": "object", "properties": map[string]any{own: map[string]any{"type": "string"}}}}}
		}
		defs[b] = mk(b, "pb")
		if g.R.Bool() {
			defs[a] = mk(b, "pa")
		} else {
			defs[a], defs[m] = mk(m, "pa"), mk(b, "pm")
		}
		return true, false
	case "circular-ancestry-indirect":
		a, b, c := "CA"+g.Tag, "CB"+g.Tag, "CC"+g.Tag
		mk := func(parent, own string) map[string]any {
			return map[string]any{"allOf": []any{map[string]any{"$ref": "#/definitions/" + parent}, map[string]any{"type": "object", "properties": map[string]any{own: map[string]any{"type": "string"}}}}}
		}
		defs[a], defs[b], defs[c] = mk(b, "pa"), mk(c, "pb"), mk(a, "pc")
		return true, false
	case "overlapping-paths":
		for _, o := range g.ops {
			if len(o.pathParams) > 0 && !strings.Contains(o.path, "-{") {
				twin := strings.Replace(o.path, "{"+o.pathParams[0]+"}", "{other}", 1)
				var ps []any
				for _, pp := range o.pathParams {
					name := pp
					if pp == o.pathParams[0] {
						name = "other"
					}
					ps = append(ps, map[string]any{"name": name, "in": "path", "required": true, "type": "string"})
				}
				paths[twin] = map[string]any{o.method: map[string]any{"operationId": "twin" + g.Tag, "parameters": ps, "responses": map[string]any{"200": map[string]any{"description": "ok"}}}}
				return true, true
			}
		}
		return false, false
	case "invalid-pattern-param":
		o := g.anyOp()
		o.op["parameters"] = append(g.params(o.op), map[string]any{"name": "pat", "in": "query", "type": "string", "pattern": "(["})
		return true, false
	case "invalid-pattern-header":
		o := g.anyOp()
		r200 := o.op["responses"].(map[string]any)["200"].(map[string]any)
		h, _ := r200["headers"].(map[string]any)
		if h == nil {
			h = map[string]any{}
			r200["headers"] = h
		}
		h["X-Pat"] = map[string]any{"type": "string", "pattern": "(["}
		return true, false
	case "invalid-pattern-schema":
		d := defs[g.defNames[0]].(map[string]any)
		props, ok := d["properties"].(map[string]any)
		if !ok {
			return false, false
		}
		props["pat"] = map[string]any{"type": "string", "pattern": "(["}
		return true, false
	case "invalid-pattern-items":
		o := g.anyOp()
		o.op["parameters"] = append(g.params(o.op), map[string]any{"name": "pats", "in": "query", "type": "array", "items": map[string]any{"type": "string", "pattern": "(["}})
		return true, false
	case "missing-paths":
		delete(doc, "paths")
		return true, false
	case "empty-placeholder":
		paths["/e"+g.Tag+"/{}"] = map[string]any{"get": map[string]any{"operationId": "empty" + g.Tag, "responses": map[string]any{"200": map[string]any{"description": "ok"}}}}
		return true, false
	}
	return false, false
}

// ApplyMulti plants several offending definitions / operations at once: exactly the situations in which
// "return at the first one met" shows as non-determinism. Returns a description.
func (g *SpecGen) ApplyMulti() []string {
	defs := g.Doc["definitions"].(map[string]any)
	var what []string
	if g.R.P(0.7) {
		// an undefined required property in every definition which has properties
		n := 0
		for _, dn := range sortedKeys(defs) {
			d, _ := defs[dn].(map[string]any)
			if _, ok := d["properties"]; ok {
				if _, hasAP := d["additionalProperties"]; hasAP {
					continue
				}
				req, _ := d["required"].([]any)
				d["required"] = append(req, "missing_"+dn)
				n++
			}
		}
		// plus a few fresh definitions, each with its own undefined required property
		for i := 0; i < g.R.Range(2, 4); i++ {
			dn := fmt.Sprintf("Req%d%s", i, g.Tag)
			defs[dn] = map[string]any{"type": "object", "properties": map[string]any{"p": map[string]any{"type": "string"}}, "required": []any{"missing_" + dn}}
			n++
		}
		what = append(what, fmt.Sprintf("required-undefined-in-%d-definitions", n))
	}
	if g.R.P(0.5) {
		mk := func(parent, own string) map[string]any {
			return map[string]any{"allOf": []any{map[string]any{"$ref": "#/definitions/" + parent}, map[string]any{"type": "object", "properties": map[string]any{own: map[string]any{"type": "string"}}}}}
		}
		defs["CA"+g.Tag], defs["CB"+g.Tag] = mk("CB"+g.Tag, "pa"), mk("CA"+g.Tag, "pb")
		what = append(what, "cycle-1")
		if g.R.Bool() {
			defs["CX"+g.Tag], defs["CY"+g.Tag], defs["CZ"+g.Tag] = mk("CY"+g.Tag, "px"), mk("CZ"+g.Tag, "py"), mk("CX"+g.Tag, "pz")
			what = append(what, "cycle-2")
		}
	}
	if g.R.P(0.5) {
		base := g.defNames[0]
		if bd, _ := defs[base].(map[string]any); bd != nil {
			if props, ok := bd["properties"].(map[string]any); ok {
				pn := sortedKeys(props)[0]
				for i := 0; i < g.R.Range(1, 3); i++ {
					defs[fmt.Sprintf("Kid%d%s", i, g.Tag)] = map[string]any{"allOf": []any{map[string]any{"$ref": "#/definitions/" + base}, map[string]any{"type": "object", "properties": map[string]any{pn: map[string]any{"type": "string"}}}}}
				}
				what = append(what, "dup-inherited-in-several-children")
			}
		}
	}
	if g.R.P(0.5) {
		// several operations WITHOUT parameters and response headers whose responses share a status code and
		// carry a schema with an invalid default (nothing in between re-initialises per-location validator state)
		paths := g.Doc["paths"].(map[string]any)
		n := g.R.Range(2, 3)
		for i := 0; i < n; i++ {
			resp := map[string]any{"description": "ok", "schema": map[string]any{"type": "integer", "maximum": I(5), "default": "bad" + fmt.Sprint(i)}}
			if i == n-1 && g.R.Bool() {
				resp = map[string]any{"description": "ok", "schema": map[string]any{"type": "integer", "maximum": I(5), "default": I(3)}}
			}
			paths[fmt.Sprintf("/np%d%s", i, g.Tag)] = map[string]any{"get": map[string]any{"operationId": fmt.Sprintf("np%d%s", i, g.Tag), "responses": map[string]any{"200": resp}}}
		}
		what = append(what, "bad-response-defaults-in-parameterless-operations")
	}
	if g.R.P(0.4) {
		// a query parameter whose default its own type rejects, in one or two operations
		for i, o := range g.ops {
			if i < 2 && g.R.P(0.7) {
				o.op["parameters"] = append(g.params(o.op), map[string]any{"name": "bdq", "in": "query", "type": "integer", "default": "ten"})
			}
		}
		what = append(what, "bad-parameter-default")
	}
	if g.R.P(0.3) {
		// a reference to a file which does not exist (not even a valid URI for the reference pass: the document is
		// never expanded)
		defs["FileRef"+g.Tag] = map[string]any{"type": "object", "properties": map[string]any{"other": map[string]any{"$ref": "no-such-file.json#/definitions/other"}}}
		what = append(what, "missing-file-ref")
	}
	if g.R.P(0.4) {
		// a child redeclaring SEVERAL inherited properties (one message lists them all)
		base := "Wide" + g.Tag
		names := []string{"alpha", "beta", "gamma", "delta", "eps"}[:g.R.Range(2, 5)]
		bp, cp := map[string]any{}, map[string]any{}
		for _, n := range names {
			bp[n], cp[n] = map[string]any{"type": "string"}, map[string]any{"type": "string"}
		}
		defs[base] = map[string]any{"type": "object", "properties": bp}
		defs["WideKid"+g.Tag] = map[string]any{"allOf": []any{map[string]any{"$ref": "#/definitions/" + base}, map[string]any{"type": "object", "properties": cp}}}
		what = append(what, fmt.Sprintf("child-redeclares-%d-inherited-properties", len(names)))
	}
	if g.R.P(0.4) {
		// three or four paths which overlap under one method (strict path uniqueness reports pairs)
		paths := g.Doc["paths"].(map[string]any)
		for i, pn := range []string{"x", "y", "z", "w"}[:g.R.Range(3, 4)] {
			paths[fmt.Sprintf("/ov%s/{%s}", g.Tag, pn)] = map[string]any{"get": map[string]any{"operationId": fmt.Sprintf("ov%d%s", i, g.Tag),
				"parameters": []any{map[string]any{"name": pn, "in": "path", "required": true, "type": "string"}},
				"responses":  map[string]any{"200": map[string]any{"description": "ok"}}}}
		}
		what = append(what, "several-overlapping-paths")
	}
	if g.R.P(0.4) {
		for _, f := range []string{"dup-operation-id", "dup-param-inline", "path-param-extra", "invalid-pattern-param"} {
			if g.R.Bool() {
				if ok, _ := g.Apply(f); ok {
					what = append(what, f)
				}
			}
		}
	}
	return what
}

// DefNames lists the definitions of the clean document.
func (g *SpecGen) DefNames() []string { return append([]string{}, g.defNames...) }

// Ops lists (path, method) of the operations.
func (g *SpecGen) Ops() [][2]string {
	var out [][2]string
	for _, o := range g.ops {
		out = append(out, [2]string{o.path, o.method})
	}
	sort.Slice(out, func(i, j int) bool { return out[i][0]+out[i][1] < out[j][0]+out[j][1] })
	return out
}

// Enrichments are legal additions to a specification: every documented rule still holds afterwards
// (a document with a fault keeps exactly that fault).  They add shapes which sit next to a rule without
// breaking it: ancestors shared by two branches, several placeholders in one path segment beside a
// single-placeholder sibling, a literal segment at the position of a placeholder, own properties beside allOf,
// operations without an id.
var Enrichments = []string{"diamond-ancestry", "deep-diamond-ancestry", "multi-placeholder-siblings", "literal-X-segment", "own-properties-beside-allof", "operation-without-id"}

// Enrich applies one enrichment; false when the document has no site for it.
func (g *SpecGen) Enrich(kind string) bool {
	doc := g.Doc
	defs, _ := doc["definitions"].(map[string]any)
	paths, _ := doc["paths"].(map[string]any)
	if defs == nil || paths == nil {
		return false
	}
	ref := func(n string) map[string]any { return map[string]any{"$ref": "#/definitions/" + n} }
	own := func(p string) map[string]any {
		return map[string]any{"type": "object", "properties": map[string]any{p: map[string]any{"type": "string"}}}
	}
	okResp := func() map[string]any { return map[string]any{"200": map[string]any{"description": "ok"}} }
	pathParam := func(n string) map[string]any {
		return map[string]any{"name": n, "in": "path", "required": true, "type": "string"}
	}
	switch kind {
	case "diamond-ancestry":
		a, b, c, d := "DiaA"+g.Tag, "DiaB"+g.Tag, "DiaC"+g.Tag, "DiaD"+g.Tag
		defs[d] = map[string]any{"type": "object"}
		defs[b] = map[string]any{"allOf": []any{ref(d), own("pb")}}
		defs[c] = map[string]any{"allOf": []any{ref(d), own("pc")}}
		defs[a] = map[string]any{"allOf": []any{ref(b), ref(c), own("pa")}}
		return true
	case "deep-diamond-ancestry":
		a, b, c, d, e := "DiaA"+g.Tag, "DiaB"+g.Tag, "DiaC"+g.Tag, "DiaD"+g.Tag, "DiaE"+g.Tag
		defs[e] = map[string]any{"type": "object", "description": "root of the lattice"}
		defs[d] = map[string]any{"allOf": []any{ref(e)}}
		defs[b] = map[string]any{"allOf": []any{ref(d), own("pb")}}
		defs[c] = map[string]any{"allOf": []any{own("pc"), ref(d), ref(e)}}
		defs[a] = map[string]any{"allOf": []any{ref(b), ref(c)}}
		return true
	case "multi-placeholder-siblings":
		m := g.R.Pick("get", "put", "delete")
		base := "/mp" + g.Tag
		type pair struct {
			p1, p2 string
			n1, n2 []string
		}
		pr := []pair{
			{base + "/{from}-{to}", base + "/{id}", []string{"from", "to"}, []string{"id"}},
			{base + "/{name}.{ext}", base + "/{owner}:{name}", []string{"name", "ext"}, []string{"owner", "name"}},
			{base + "/a/{x}{y}/b", base + "/a/{z}/b", []string{"x", "y"}, []string{"z"}},
		}[g.R.Intn(3)]
		mk := func(names []string, id string) map[string]any {
			var ps []any
			for _, n := range names {
				ps = append(ps, pathParam(n))
			}
			return map[string]any{m: map[string]any{"operationId": id + g.Tag, "parameters": ps, "responses": okResp()}}
		}
		paths[pr.p1] = mk(pr.n1, "mpOne")
		paths[pr.p2] = mk(pr.n2, "mpTwo")
		return true
	case "literal-X-segment":
		m := g.R.Pick("get", "put", "delete")
		base := "/lx" + g.Tag
		paths[base+"/{id}"] = map[string]any{m: map[string]any{"operationId": "lxOne" + g.Tag, "parameters": []any{pathParam("id")}, "responses": okResp()}}
		paths[base+"/X"] = map[string]any{m: map[string]any{"operationId": "lxTwo" + g.Tag, "responses": okResp()}}
		return true
	case "own-properties-beside-allof":
		base := g.defNames[0]
		defs["Beside"+g.Tag] = map[string]any{"allOf": []any{ref(base)}, "properties": map[string]any{"besideOwn" + g.Tag: map[string]any{"type": "string"}}}
		return true
	case "operation-without-id":
		paths["/noid"+g.Tag] = map[string]any{"get": map[string]any{"responses": okResp()}, "delete": map[string]any{"responses": okResp()}}
		return true
	}
	return false
}
