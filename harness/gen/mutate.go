package gen

import (
	"encoding/json"
	"fmt"
	"os"
	"path/filepath"
	"sort"
	"strings"

	"gopkg.in/yaml.v3"

	"verif/harness/lib"
)

// loc is a location in a JSON tree: a container and a key / index in it.
type loc struct {
	obj  map[string]any
	arr  []any
	key  string
	idx  int
	path string
}

func (l loc) get() any {
	if l.obj != nil {
		return l.obj[l.key]
	}
	return l.arr[l.idx]
}

func (l loc) set(v any) {
	if l.obj != nil {
		l.obj[l.key] = v
	} else {
		l.arr[l.idx] = v
	}
}

func collect(v any, path string, out *[]loc) {
	switch x := v.(type) {
	case map[string]any:
		for _, k := range sortedKeys(x) {
			p := path + "/" + k
			*out = append(*out, loc{obj: x, key: k, path: p})
			collect(x[k], p, out)
		}
	case []any:
		for i := range x {
			p := fmt.Sprintf("%s/%d", path, i)
			*out = append(*out, loc{arr: x, idx: i, path: p})
			collect(x[i], p, out)
		}
	}
}

var oddNames = []string{"title", "description", "name", "type", "format", "enum", "required", "in", "schema", "x-ok", "", "a.a", "a.b", "x.y.z", ".", "a.", ".a", "ünï", "$ref", "a b", "{}", "default", "items", "properties", "example", "a.a.a", "definitions.a", "0"}

// Mutate applies n structural edits to a document tree in place and returns their descriptions.
func Mutate(r *lib.Rand, doc map[string]any, n int) []string {
	var edits []string
	for i := 0; i < n; i++ {
		var locs []loc
		collect(doc, "", &locs)
		if len(locs) == 0 {
			break
		}
		l := locs[r.Intn(len(locs))]
		switch r.Intn(14) {
		case 13:
			// a validation keyword with a value outside what the Swagger schema allows for it
			var typed []map[string]any
			for _, c := range locs {
				if m, ok := c.get().(map[string]any); ok {
					if _, hasType := m["type"]; hasType {
						typed = append(typed, m)
					}
				}
			}
			if len(typed) > 0 {
				m := typed[r.Intn(len(typed))]
				switch r.Intn(8) {
				case 6, 7:
					// a LONG list (17-40 members; legal for the Swagger schema unless it repeats a member): enum with an
					// object, an array or null among scalars; required; a long uniqueItems default
					n := r.Range(17, 40)
					long := make([]any, n)
					for k := range long {
						long[k] = json.Number(fmt.Sprint(k))
					}
					switch r.Intn(4) {
					case 0:
						long[r.Intn(n)] = map[string]any{"a": json.Number("1")}
					case 1:
						long[r.Intn(n)] = []any{"x"}
					case 2:
						long[r.Intn(n)] = nil
					}
					if r.P(0.25) {
						long[n-1] = long[r.Intn(n-1)] // repeats a member: violates uniqueItems of the Swagger schema
					}
					switch r.Intn(3) {
					case 0:
						m["enum"] = long
					case 1:
						names := make([]any, n)
						for k := range names {
							names[k] = fmt.Sprintf("p%02d", k)
						}
						if r.P(0.25) {
							names[n-1] = names[0]
						}
						m["required"] = names
					default:
						m["default"] = long
					}
					edits = append(edits, "long-list")
					continue
				case 0:
					m["multipleOf"] = []any{json.Number("-2"), json.Number("0"), json.Number("-0.5"), "2"}[r.Intn(4)]
				case 1:
					m[r.Pick("maxLength", "minLength", "maxItems", "minItems")] = []any{json.Number("-1"), json.Number("1.5"), "3", nil}[r.Intn(4)]
				case 2:
					m[r.Pick("maximum", "minimum")] = []any{"10", true, []any{}}[r.Intn(3)]
				case 3:
					m[r.Pick("exclusiveMaximum", "exclusiveMinimum", "uniqueItems")] = []any{"true", json.Number("1"), nil}[r.Intn(3)]
				case 4:
					m["enum"] = []any{[]any{}, "a", []any{json.Number("1"), json.Number("1")}}[r.Intn(3)]
				default:
					m["required"] = []any{true, []any{}, []any{"a", "a"}, "a"}[r.Intn(4)]
				}
				edits = append(edits, "bad-keyword-value")
			}
		case 12:
			// a vendor extension (or another stray member) dropped into an object, preferably a reference object
			var objs, refs []map[string]any
			for _, c := range locs {
				if m, ok := c.get().(map[string]any); ok {
					objs = append(objs, m)
					if _, isRef := m["$ref"]; isRef {
						refs = append(refs, m)
					}
				}
			}
			pool := objs
			if len(refs) > 0 && r.P(0.6) {
				pool = refs
			}
			if len(pool) > 0 {
				m := pool[r.Intn(len(pool))]
				k := []string{"x-ext", "x-nullable", "x-", "y-ext", "X-ext", "description"}[r.Intn(6)]
				if _, exists := m[k]; !exists {
					m[k] = []any{json.Number("1"), "v", true, map[string]any{}}[r.Intn(4)]
					edits = append(edits, "add-member "+k)
				}
			}
		case 0:
			if l.obj != nil {
				delete(l.obj, l.key)
				edits = append(edits, "delete "+l.path)
			}
		case 1:
			var nv any
			switch l.get().(type) {
			case map[string]any:
				nv = []any{"x", nil, true, json.Number("3"), []any{}}[r.Intn(5)]
			case []any:
				nv = []any{"x", nil, map[string]any{}, json.Number("1.5")}[r.Intn(4)]
			case string:
				nv = []any{json.Number("7"), nil, true, map[string]any{}, []any{}, []any{"x"}}[r.Intn(6)]
			default:
				nv = []any{"str", nil, map[string]any{}, []any{}}[r.Intn(4)]
			}
			l.set(nv)
			edits = append(edits, "retype "+l.path)
		case 2:
			if l.obj != nil {
				nn := oddNames[r.Intn(len(oddNames))]
				if _, exists := l.obj[nn]; !exists {
					l.obj[nn] = l.obj[l.key]
					delete(l.obj, l.key)
					edits = append(edits, fmt.Sprintf("rename %s -> %q", l.path, nn))
				}
			}
		case 3:
			src := locs[r.Intn(len(locs))]
			if !strings.HasPrefix(l.path, src.path) && !strings.HasPrefix(src.path, l.path) {
				l.set(clone(src.get()))
				edits = append(edits, "transplant "+src.path+" -> "+l.path)
			}
		case 4:
			l.set(nil)
			edits = append(edits, "null "+l.path)
		case 5:
			if m, ok := l.get().(map[string]any); ok {
				target := []string{"#/definitions/Nowhere", "#/nowhere", "#/parameters/nope", "#/responses/nope", "#/definitions", "#", "other.json#/x"}[r.Intn(7)]
				if r.Bool() {
					m["$ref"] = target // reference with siblings
					if r.Bool() {
						m["default"] = []any{json.Number("1"), "d", map[string]any{}}[r.Intn(3)]
						m["example"] = []any{json.Number("2"), "e"}[r.Intn(2)]
					}
					edits = append(edits, "add-ref-sibling "+l.path)
				} else {
					l.set(map[string]any{"$ref": target})
					edits = append(edits, "replace-by-ref "+l.path)
				}
			}
		case 6, 7:
			// parameter-specific edits
			var params []loc
			for _, c := range locs {
				if m, ok := c.get().(map[string]any); ok {
					if _, hasIn := m["in"]; hasIn {
						params = append(params, c)
					}
				}
			}
			if len(params) > 0 {
				pl := params[r.Intn(len(params))]
				if r.Bool() {
					// prefer parameters which carry a schema (body parameters)
					for _, c := range params {
						if mm := c.get().(map[string]any); mm["schema"] != nil {
							pl = c
							break
						}
					}
				}
				m := pl.get().(map[string]any)
				if r.Bool() {
					m["name"] = oddNames[r.Intn(len(oddNames))]
					edits = append(edits, fmt.Sprintf("param-name %s = %q", pl.path, m["name"]))
				} else {
					m["in"] = []string{"query", "path", "header", "formData", "body", "cookie"}[r.Intn(6)]
					edits = append(edits, fmt.Sprintf("param-in %s = %v", pl.path, m["in"]))
				}
				if r.P(0.3) {
					m["default"] = []any{"d", json.Number("1"), map[string]any{"a": json.Number("1")}, nil}[r.Intn(4)]
					m["example"] = []any{"e", json.Number("2")}[r.Intn(2)]
				}
				if r.P(0.25) {
					// an array parameter whose default / example holds null or mixed elements
					m["type"] = "array"
					if _, has := m["items"]; !has || r.Bool() {
						m["items"] = map[string]any{"type": r.Pick("string", "integer", "array"), "items": map[string]any{"type": "string"}}
					}
					delete(m, "schema")
					if m["in"] == "body" {
						m["in"] = "query"
					}
					vals := []any{[]any{nil}, []any{"a", nil}, []any{[]any{nil}}, []any{json.Number("1"), "x"}, []any{}}
					m["default"] = vals[r.Intn(len(vals))]
					if r.Bool() {
						m["example"] = vals[r.Intn(len(vals))]
					}
					edits = append(edits, "param-array-default "+pl.path)
				}
			}
		case 8:
			if l.arr != nil && len(l.arr) > 0 {
				// duplicate an element (the parent keeps its length: overwrite a sibling)
				l.arr[r.Intn(len(l.arr))] = clone(l.get())
				edits = append(edits, "dup-element "+l.path)
			}
		case 9:
			if m, ok := l.get().(map[string]any); ok {
				if _, hasType := m["type"]; hasType {
					m["type"] = []any{"array", "object", "string", "integer", "file", "nope", []any{"string", "null"}, nil}[r.Intn(8)]
					edits = append(edits, "change-type "+l.path)
				}
			}
		case 10:
			// rename a definition / property / header to an odd name (keeps references dangling)
			for _, sect := range []string{"definitions", "parameters", "responses"} {
				if m, ok := doc[sect].(map[string]any); ok && len(m) > 0 && r.P(0.4) {
					ks := sortedKeys(m)
					k := ks[r.Intn(len(ks))]
					nn := oddNames[r.Intn(len(oddNames))]
					if _, exists := m[nn]; !exists {
						m[nn] = m[k]
						if r.Bool() {
							delete(m, k)
						}
						edits = append(edits, fmt.Sprintf("rename-%s %q -> %q", sect, k, nn))
					}
					break
				}
			}
		default:
			// give a schema-like object a default and an example of a random kind
			if m, ok := l.get().(map[string]any); ok {
				if _, hasType := m["type"]; hasType {
					m["default"] = []any{"d", json.Number("-1"), []any{}, map[string]any{}, nil, true}[r.Intn(6)]
					m["example"] = []any{"e", json.Number("99999"), []any{json.Number("1")}, map[string]any{"z": nil}}[r.Intn(4)]
					edits = append(edits, "add-default-example "+l.path)
				}
			}
		}
	}
	sort.Strings(edits)
	return edits
}

// FixtureDocs loads the JSON specification fixtures which serve as mutation bases.
func FixtureDocs(repo string) (map[string][]byte, error) {
	out := map[string][]byte{}
	for _, rel := range []string{
		"petstore/swagger.json", "validation/valid-ref.json", "validation/petstore-expanded.json", "validation/fixture-161-good.json",
		"validation/fixture-patternProperties.json", "validation/fixture-43.json", "validation/nestedduplicateprops.json",
	} {
		b, err := os.ReadFile(filepath.Join(repo, "fixtures", rel))
		if err != nil {
			return nil, err
		}
		out[rel] = b
	}
	return out, nil
}

func toYAMLValue(v any) any {
	switch x := v.(type) {
	case json.Number:
		if i, err := x.Int64(); err == nil {
			return i
		}
		f, _ := x.Float64()
		return f
	case map[string]any:
		out := map[string]any{}
		for k, e := range x {
			out[k] = toYAMLValue(e)
		}
		return out
	case []any:
		out := make([]any, len(x))
		for i, e := range x {
			out[i] = toYAMLValue(e)
		}
		return out
	}
	return v
}

// YAML renders a raw JSON tree as YAML text.
func YAML(v any) ([]byte, error) { return yaml.Marshal(toYAMLValue(v)) }

// GraphEdit applies one edit which changes the reference graph or the identity of schemas rather than one
// sub-tree: cycles of definitions which are nothing but a $ref (reached through allOf, a property, a response
// or a parameter schema), an "id" member on a schema which carries a default / example and an inner $ref,
// string members emptied.  Returns a description, or "" when the document has no site.
func GraphEdit(r *lib.Rand, doc map[string]any) string {
	defs, _ := doc["definitions"].(map[string]any)
	if defs == nil {
		defs = map[string]any{}
		doc["definitions"] = defs
	}
	switch r.Intn(13) / 3 {
	case 4:
		// (one graph edit in thirteen: each of these documents costs a process)
		// a cycle of definitions through composition keywords (A allOf [B], B allOf [A]: circular ancestry; or through
		// anyOf / oneOf / not) and a schema with a default / example whose value reaches into the cycle
		n := r.Range(1, 3)
		kw := r.Pick("allOf", "allOf", "anyOf", "oneOf", "not")
		for i := 0; i < n; i++ {
			next := map[string]any{"$ref": fmt.Sprintf("#/definitions/Loop%d", (i+1)%n)}
			if kw == "not" {
				defs[fmt.Sprintf("Loop%d", i)] = map[string]any{"not": next}
			} else {
				defs[fmt.Sprintf("Loop%d", i)] = map[string]any{kw: []any{next, map[string]any{"type": "object", "properties": map[string]any{fmt.Sprintf("lp%d", i): map[string]any{"type": "string"}}}}}
			}
		}
		user := map[string]any{"type": "object", "properties": map[string]any{"p": map[string]any{"$ref": "#/definitions/Loop0"}}}
		user[r.Pick("default", "example")] = map[string]any{"p": map[string]any{"lp0": "v"}}
		defs["LoopUser"] = user
		return fmt.Sprintf("composition-cycle %s length %d", kw, n)
	case 0:
		// a cycle of pure $ref definitions of length 1..3 and something which leads into it
		n := r.Range(1, 3)
		for i := 0; i < n; i++ {
			defs[fmt.Sprintf("Cyc%d", i)] = map[string]any{"$ref": fmt.Sprintf("#/definitions/Cyc%d", (i+1)%n)}
		}
		entry := map[string]any{"$ref": "#/definitions/Cyc0"}
		switch r.Intn(4) {
		case 0:
			defs["CycUser"] = map[string]any{"allOf": []any{entry, map[string]any{"type": "object", "properties": map[string]any{"p": map[string]any{"type": "string"}}}}}
		case 1:
			defs["CycUser"] = map[string]any{"type": "object", "properties": map[string]any{"p": entry}, "default": map[string]any{"p": json.Number("1")}}
		case 2:
			defs["CycUser"] = map[string]any{"type": "array", "items": entry, "example": []any{json.Number("1")}}
		default:
			defs["CycUser"] = map[string]any{"allOf": []any{map[string]any{"allOf": []any{entry}}}}
		}
		return fmt.Sprintf("ref-cycle length %d", n)
	case 1:
		// a schema with an id (a new resolution scope), an inner $ref and a default / example
		names := sortedKeys(defs)
		target := "IdT"
		defs[target] = map[string]any{"type": "string"}
		if len(names) > 0 && r.Bool() {
			target = names[r.Intn(len(names))]
		}
		s := map[string]any{"id": r.Pick("http://localhost:1/x/", "urn:verif:x", "x.json", "#frag", ""), "type": "object",
			"properties": map[string]any{"a": map[string]any{"$ref": "#/definitions/" + target}}}
		if r.Bool() {
			s["default"] = map[string]any{"a": "1"}
		} else {
			s["example"] = map[string]any{"a": "1"}
		}
		defs["WithId"] = s
		return fmt.Sprintf("schema-id %q", s["id"])
	case 2:
		// empty a string member (host, basePath, names, patterns, formats, references ...)
		var locs, strs []loc
		collect(doc, "", &locs)
		for _, l := range locs {
			if _, ok := l.get().(string); ok {
				strs = append(strs, l)
			}
		}
		// the root members which the Swagger schema constrains by a pattern are preferred
		if r.P(0.5) {
			k := r.Pick("host", "basePath")
			doc[k] = r.Pick("", " ", "a/b", "/", "x y")
			return fmt.Sprintf("root-string %s=%q", k, doc[k])
		}
		if len(strs) == 0 {
			return ""
		}
		l := strs[r.Intn(len(strs))]
		l.set("")
		return "empty-string " + l.path
	default:
		// a definition which is nothing but a $ref to another definition (legal), used as a base of inheritance
		names := sortedKeys(defs)
		if len(names) == 0 {
			return ""
		}
		defs["Alias"] = map[string]any{"$ref": "#/definitions/" + names[r.Intn(len(names))]}
		defs["AliasUser"] = map[string]any{"allOf": []any{map[string]any{"$ref": "#/definitions/Alias"}, map[string]any{"type": "object", "properties": map[string]any{"aliasOwn": map[string]any{"type": "string"}}}}}
		return "alias-definition"
	}
}

// SchemaEdit applies ONE small edit which (most of the time) makes an otherwise valid specification violate the
// Swagger 2.0 schema at exactly one place: a pattern, an enum, a format, a closed object, a bound or a uniqueness
// constraint of the meta-schema.  Whether the result is schema-invalid is decided by the reference model, not here.
func SchemaEdit(r *lib.Rand, doc map[string]any) string {
	paths, _ := doc["paths"].(map[string]any)
	var ops []map[string]any
	var opKeys []string
	for _, pk := range sortedKeys(paths) {
		item, _ := paths[pk].(map[string]any)
		for _, m := range []string{"get", "put", "post", "delete"} {
			if o, ok := item[m].(map[string]any); ok {
				ops = append(ops, o)
				opKeys = append(opKeys, pk+"."+m)
			}
		}
	}
	info, _ := doc["info"].(map[string]any)
	anyOp := func() (map[string]any, string) {
		if len(ops) == 0 {
			return nil, ""
		}
		i := r.Intn(len(ops))
		return ops[i], opKeys[i]
	}
	switch r.Intn(20) {
	case 0:
		doc["host"] = r.Pick("", " ", "a/b", "{x}", "h:")
		return fmt.Sprintf("host=%q", doc["host"])
	case 1:
		doc["basePath"] = r.Pick("", "x", " /a", "api/")
		return fmt.Sprintf("basePath=%q", doc["basePath"])
	case 2:
		doc["schemes"] = []any{r.Pick("ftp", "", "HTTP", "http ")}
		return "schemes"
	case 3:
		doc["schemes"] = []any{"http", "http"}
		return "schemes-duplicate"
	case 4:
		doc["consumes"] = []any{r.Pick("", "json", "application/", "a b/c")}
		return "consumes"
	case 5:
		if info != nil {
			switch r.Intn(3) {
			case 0:
				delete(info, "version")
			case 1:
				info["title"] = json.Number("7")
			default:
				info["contact"] = map[string]any{"email": r.Pick("nobody", "", "a@"), "url": "http://x"}
			}
			return "info"
		}
	case 6:
		if paths != nil && len(paths) > 0 {
			ks := sortedKeys(paths)
			k := ks[r.Intn(len(ks))]
			nk := r.Pick("noslash", "", "x-", "relative/{id}")
			if _, exists := paths[nk]; !exists {
				paths[nk] = paths[k]
				delete(paths, k)
				return fmt.Sprintf("path-key %q", nk)
			}
		}
	case 7:
		if o, k := anyOp(); o != nil {
			if resp, ok := o["responses"].(map[string]any); ok {
				nk := r.Pick("2000", "abc", "20", "", "2xx")
				resp[nk] = map[string]any{"description": "odd"}
				return "response-key " + k + " " + nk
			}
		}
	case 8:
		if o, k := anyOp(); o != nil {
			ps, _ := o["parameters"].([]any)
			o["parameters"] = append(ps, map[string]any{"name": "sx", "in": r.Pick("cookie", "", "Query", "body "), "type": "string"})
			return "param-in " + k
		}
	case 9:
		if o, k := anyOp(); o != nil {
			ps, _ := o["parameters"].([]any)
			o["parameters"] = append(ps, map[string]any{"name": "sx", "in": "query", "type": "array", "items": map[string]any{"type": "string"}, "collectionFormat": r.Pick("xsv", "", "CSV", "multi ")})
			return "param-collectionFormat " + k
		}
	case 10:
		if o, k := anyOp(); o != nil {
			ps, _ := o["parameters"].([]any)
			o["parameters"] = append(ps, map[string]any{"name": "sx", "in": "query", "type": r.Pick("object", "", "int", "String")})
			return "param-type " + k
		}
	case 11:
		if o, k := anyOp(); o != nil {
			ps, _ := o["parameters"].([]any)
			o["parameters"] = append(ps, map[string]any{"name": "sx", "in": "query", "type": "string", "required": r.Pick("yes", "true")})
			return "param-required " + k
		}
	case 12:
		if o, k := anyOp(); o != nil {
			o["tags"] = []any{"t", "t"}
			return "tags-duplicate " + k
		}
	case 13:
		if o, k := anyOp(); o != nil {
			o["externalDocs"] = map[string]any{"description": "no url"}
			return "externalDocs " + k
		}
	case 14:
		if o, k := anyOp(); o != nil {
			o["deprecated"] = r.Pick("true", "no")
			return "deprecated " + k
		}
	case 15:
		if o, k := anyOp(); o != nil {
			o["security"] = []any{map[string]any{"k": "not-a-list"}}
			return "security " + k
		}
	case 16:
		doc["securityDefinitions"] = map[string]any{"k": map[string]any{"type": r.Pick("apiKey", "basic", "oauth2"), "in": "cookie", "name": "n", "flow": "implicit"}}
		return "securityDefinitions"
	case 17:
		doc["tags"] = []any{map[string]any{"description": "nameless"}}
		return "root-tags"
	case 18:
		doc["swagger"] = r.Pick("2", "3.0", "", "2.0 ")
		return "swagger-version"
	default:
		if defs, ok := doc["definitions"].(map[string]any); ok && len(defs) > 0 {
			ks := sortedKeys(defs)
			if d, ok := defs[ks[r.Intn(len(ks))]].(map[string]any); ok {
				switch r.Intn(4) {
				case 0:
					d["enum"] = []any{}
				case 1:
					d["required"] = []any{}
				case 2:
					d["maxProperties"] = json.Number("-1")
				default:
					d["type"] = r.Pick("any", "", "Object")
				}
				return "definition-keyword"
			}
		}
	}
	return ""
}


// CompositionCycle tells whether the definitions of a parsed specification contain a cycle which runs through
// composition positions only ($ref of the definition itself, members of allOf / anyOf / oneOf, the schema under not):
// positions which consume no data, so that compiling a validator for such a definition never ends.
func CompositionCycle(doc map[string]any) bool {
	defs, _ := doc["definitions"].(map[string]any)
	edges := map[string][]string{}
	for name, d := range defs {
		var walk func(v any)
		walk = func(v any) {
			m, ok := v.(map[string]any)
			if !ok {
				return
			}
			if ref, ok := m["$ref"].(string); ok && strings.HasPrefix(ref, "#/definitions/") {
				edges[name] = append(edges[name], strings.TrimPrefix(ref, "#/definitions/"))
			}
			for _, k := range []string{"allOf", "anyOf", "oneOf"} {
				if l, ok := m[k].([]any); ok {
					for _, e := range l {
						walk(e)
					}
				}
			}
			walk(m["not"])
		}
		walk(d)
	}
	state := map[string]int{}
	var visit func(n string) bool
	visit = func(n string) bool {
		switch state[n] {
		case 1:
			return true
		case 2:
			return false
		}
		state[n] = 1
		for _, m := range edges[n] {
			if visit(m) {
				return true
			}
		}
		state[n] = 2
		return false
	}
	for n := range edges {
		if visit(n) {
			return true
		}
	}
	return false
}


// TwinOf returns a copy of a specification with the SAME names everywhere (paths, methods, operation ids,
// parameters, definitions, properties) and other content below them: every default is replaced by a value of
// another kind, one property of every second definition is dropped or added, required lists lose their last name.
// A validator (or the package) which keeps something per name beyond one validation now keeps the twin's.
func TwinOf(r *lib.Rand, doc map[string]any) map[string]any {
	t, _ := Clone(doc).(map[string]any)
	var walk func(v any)
	walk = func(v any) {
		switch x := v.(type) {
		case map[string]any:
			if d, has := x["default"]; has {
				switch d.(type) {
				case string:
					x["default"] = json.Number("7")
				default:
					x["default"] = "twin"
				}
			}
			if req, ok := x["required"].([]any); ok && len(req) > 0 && r.Bool() {
				x["required"] = req[:len(req)-1]
			}
			for _, k := range sortedKeys(x) {
				walk(x[k])
			}
		case []any:
			for _, e := range x {
				walk(e)
			}
		}
	}
	walk(t)
	if defs, ok := t["definitions"].(map[string]any); ok {
		for i, dn := range sortedKeys(defs) {
			d, _ := defs[dn].(map[string]any)
			props, _ := d["properties"].(map[string]any)
			if props == nil || i%2 == 1 {
				continue
			}
			if names := sortedKeys(props); len(names) > 1 && r.Bool() {
				delete(props, names[len(names)-1])
			} else {
				props["twinprop"] = map[string]any{"type": "string"}
			}
		}
	}
	return t
}
