package lib

import (
	"os"
	"path/filepath"
	"regexp"
	"strings"
)

// RaceReport is one de-duplicated "WARNING: DATA RACE" block of a race-detector log.
type RaceReport struct {
	Key  string // outermost validate frames of the two stacks, line numbers stripped
	Text string
	From int // first case index of the child process which produced the report
}

var frameRe = regexp.MustCompile(`^\s+(github\.com/go-openapi/validate[^\s(]*)\(`)

// ParseRaceLogs reads every log file written with GORACE=log_path=<prefix> and returns the blocks.
func ParseRaceLogs(prefix string) []RaceReport {
	files, _ := filepath.Glob(prefix + ".*")
	var out []RaceReport
	for _, f := range files {
		b, err := os.ReadFile(f)
		if err != nil {
			continue
		}
		out = append(out, ParseRaceText(string(b))...)
		_ = os.Remove(f)
	}
	return out
}

// ParseRaceText splits race-detector output into blocks and keys each by the first validate
// frame of each of its stacks.
func ParseRaceText(s string) []RaceReport {
	var out []RaceReport
	parts := strings.Split(s, "WARNING: DATA RACE")
	for _, p := range parts[1:] {
		end := strings.Index(p, "==================")
		if end > 0 {
			p = p[:end]
		}
		// stacks are separated by blank lines; take the first validate frame of each of the two access stacks
		var keys []string
		for _, st := range strings.Split(p, "\n\n") {
			if len(keys) >= 2 {
				break
			}
			head := strings.TrimSpace(st)
			if !(strings.HasPrefix(head, "Read at") || strings.HasPrefix(head, "Write at") ||
				strings.HasPrefix(head, "Previous read at") || strings.HasPrefix(head, "Previous write at") ||
				strings.HasPrefix(head, "Previous atomic") || strings.HasPrefix(head, "Atomic")) {
				continue
			}
			k := "(no validate frame)"
			for _, l := range strings.Split(st, "\n") {
				if m := frameRe.FindStringSubmatch(l); m != nil {
					k = m[1]
					break
				}
			}
			keys = append(keys, k)
		}
		txt := p
		if len(txt) > 4000 {
			txt = txt[:4000]
		}
		out = append(out, RaceReport{Key: strings.Join(keys, " <-> "), Text: "WARNING: DATA RACE" + txt})
	}
	return out
}
