// Package lib holds what every property driver shares: seeded PRNG, process orchestration
// (parent / worker children, crash attribution), evidence and replay files, known findings.
package lib

import (
	"hash/fnv"
	"math"
)

// Rand is a small deterministic PRNG (splitmix64). Every case derives its own stream from
// (seed, property, index) so that a case is regenerable from three values.
type Rand struct{ s uint64 }

func mix(x uint64) uint64 {
	x += 0x9E3779B97F4A7C15
	x = (x ^ (x >> 30)) * 0xBF58476D1CE4E5B9
	x = (x ^ (x >> 27)) * 0x94D049BB133111EB
	return x ^ (x >> 31)
}

// NewRand derives the stream of one case.
func NewRand(seed int64, prop string, idx int) *Rand {
	h := fnv.New64a()
	h.Write([]byte(prop))
	return &Rand{s: mix(uint64(seed)) ^ mix(h.Sum64()) ^ mix(uint64(idx)*0xD1342543DE82EF95+1)}
}

func (r *Rand) Uint64() uint64 {
	r.s += 0x9E3779B97F4A7C15
	x := r.s
	x = (x ^ (x >> 30)) * 0xBF58476D1CE4E5B9
	x = (x ^ (x >> 27)) * 0x94D049BB133111EB
	return x ^ (x >> 31)
}

// Intn returns a value in [0,n).
func (r *Rand) Intn(n int) int {
	if n <= 1 {
		return 0
	}
	return int(r.Uint64() % uint64(n))
}

// Range returns a value in [lo,hi].
func (r *Rand) Range(lo, hi int) int { return lo + r.Intn(hi-lo+1) }

// P is true with probability p.
func (r *Rand) P(p float64) bool { return float64(r.Uint64()>>11)/float64(1<<53) < p }

func (r *Rand) Bool() bool { return r.Uint64()&1 == 1 }

func (r *Rand) Float() float64 { return float64(r.Uint64()>>11) / float64(1<<53) }

// Fork derives an independent stream.
func (r *Rand) Fork() *Rand { return &Rand{s: mix(r.Uint64())} }

// Pick returns one of the strings.
func (r *Rand) Pick(xs ...string) string { return xs[r.Intn(len(xs))] }

// Weighted picks an index with probability proportional to the weights.
func (r *Rand) Weighted(w ...int) int {
	t := 0
	for _, x := range w {
		t += x
	}
	k := r.Intn(t)
	for i, x := range w {
		if k < x {
			return i
		}
		k -= x
	}
	return len(w) - 1
}

// Shuffle permutes n elements.
func (r *Rand) Shuffle(n int, swap func(i, j int)) {
	for i := n - 1; i > 0; i-- {
		j := r.Intn(i + 1)
		swap(i, j)
	}
}

// Hash64 hashes bytes (distinctness of cases).
func Hash64(b []byte) uint64 {
	h := fnv.New64a()
	h.Write(b)
	v := h.Sum64()
	if v == 0 {
		v = math.MaxUint64
	}
	return v
}
