package lib

import (
	"bufio"
	"fmt"
	"os"
	"strings"
)

// KnownFindings is the committed list of genuine defects which are recorded rather than repaired
// (lines "known: property=<id> key=<key> <what fails>") and of repaired ones
// (lines "fixed: property=<id> <commit> <what failed>", which suppress nothing).
type KnownFindings struct {
	known map[string]string // "C01/key" -> description
	Fixed []string
}

// LoadKnownFindings reads the file; a missing file is an empty list.
func LoadKnownFindings(path string) (*KnownFindings, error) {
	k := &KnownFindings{known: map[string]string{}}
	f, err := os.Open(path)
	if err != nil {
		if os.IsNotExist(err) {
			return k, nil
		}
		return nil, err
	}
	defer f.Close()
	sc := bufio.NewScanner(f)
	sc.Buffer(make([]byte, 1<<20), 1<<20)
	ln := 0
	for sc.Scan() {
		ln++
		line := strings.TrimSpace(sc.Text())
		if line == "" || strings.HasPrefix(line, "#") {
			continue
		}
		switch {
		case strings.HasPrefix(line, "known:"):
			fields := strings.Fields(strings.TrimPrefix(line, "known:"))
			var prop, key string
			rest := []string{}
			for _, f := range fields {
				switch {
				case strings.HasPrefix(f, "property=") && prop == "":
					prop = strings.TrimPrefix(f, "property=")
				case strings.HasPrefix(f, "key=") && key == "":
					key = strings.TrimPrefix(f, "key=")
				default:
					rest = append(rest, f)
				}
			}
			if prop == "" || key == "" {
				return nil, fmt.Errorf("%s:%d: known line needs property= and key=", path, ln)
			}
			k.known[prop+"/"+key] = strings.Join(rest, " ")
		case strings.HasPrefix(line, "fixed:"):
			k.Fixed = append(k.Fixed, line)
		default:
			return nil, fmt.Errorf("%s:%d: unrecognised line", path, ln)
		}
	}
	return k, sc.Err()
}

// Listed tells whether (property, key) is a recorded known finding.
func (k *KnownFindings) Listed(prop, key string) bool {
	_, ok := k.known[prop+"/"+key]
	return ok
}
