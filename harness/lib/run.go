package lib

import (
	"bytes"
	"encoding/binary"
	"encoding/json"
	"flag"
	"fmt"
	"os"
	"os/exec"
	"path/filepath"
	"runtime"
	"runtime/debug"
	"sort"
	"strconv"
	"strings"
	"sync"
	"time"
)

// Case is the outcome of one explored case, as judged by the property's oracle.
type Case struct {
	Hash         uint64     // distinctness hash of the canonical case (0: do not count)
	Hashes       []uint64   // a case made of several distinct sub-cases (e.g. one per injection point) lists them here
	Nontrivial   bool       // non-trivial by the property's stated rule
	Tags         []string   // histogram keys (what the case exercised / what the monitor saw)
	Viol         *Violation // non-nil: the oracle refuted the property on this case
	Known        []string   // keys of known findings which exactly explain a deviation seen on this case
	KnownWhat    string     // short description of the deviation (first one is kept per key)
	Sample       any        // JSON-able rendering of the case (a few are kept as evidence)
	Inconclusive string     // non-empty: the monitor could not decide this case
	Evals        int        // executions performed by this case (default 1)
	Nums         map[string]int64
}

// Violation is a witness.
type Violation struct {
	What   string `json:"what"`
	Detail any    `json:"detail,omitempty"`
}

// Property is one property driver.
type Property interface {
	ID() string
	Level() string
	Rule() string
	Technique() string
	Assumptions() []string
	Cases(tier string) int
	Init(w *Worker) error
	Run(w *Worker, idx int, r *Rand) Case
}

// Optional interfaces of a Property.
type (
	// Racer asks for children built with the race detector.
	Racer interface{ Race(tier string) bool }
	// Chunker tells how many cases one child process handles.
	Chunker interface{ Chunk(tier string) int }
	// Enver adds environment variables to the child of a given chunk.
	Enver interface {
		ChildEnv(tier string, from int) []string
	}
	// Timeouter bounds one case (bounded-progress watchdog), in seconds.
	Timeouter interface{ CaseTimeout(tier string) int }
	// Finisher judges the aggregate (required monitor observations etc.).
	Finisher interface {
		Finish(a *Aggregate) (broken []string)
	}
	// Auxer runs an auxiliary computation in a fresh process: `vh aux <prop> args...`, result on stdout.
	Auxer interface{ Aux(args []string) int }
	// RaceClassifier attributes a race report to a recorded finding (returns its key, or "").
	RaceClassifier interface {
		KnownRace(tier string, rb RaceReport) string
	}
	// CrashClassifier attributes the death of a child process at case idx to a recorded finding (returns its key,
	// or ""); stderr is everything the dying process wrote.
	CrashClassifier interface {
		KnownCrash(tier string, seed int64, idx int, stderr string) string
	}
	// StackLimiter sets the stack limit of the worker processes in bytes (default 256 MB).
	StackLimiter interface{ MaxStack() int }
	// Paralleler bounds the number of concurrent children.
	Paralleler interface{ Parallel(tier string) int }
)

// Worker is the per-process context handed to a property.
type Worker struct {
	Prop    Property
	Tier    string
	Seed    int64
	Replay  bool
	WorkDir string
	Known   *KnownFindings
	marker  *os.File
}

// Summary is what one child reports for its range.
type Summary struct {
	From, To     int
	Evaluations  int64
	Cases        int64
	Tags         map[string]int64
	Nums         map[string]int64
	Samples      []any
	Violations   []ViolationRec
	Known        map[string]*KnownAgg
	Inconclusive []string
	Done         bool
}

type ViolationRec struct {
	Index  int    `json:"index"`
	What   string `json:"what"`
	Detail any    `json:"detail,omitempty"`
}

type KnownAgg struct {
	Count int64  `json:"cases_explained"`
	First string `json:"first_witness"`
	Index int    `json:"first_index"`
}

// Aggregate is the parent's merged view.
type Aggregate struct {
	Summary
	Distinct   int64
	Crashes    []ViolationRec
	RaceBlocks []RaceReport
	Extra      map[string]any
}

var registry = map[string]Property{}

// Register adds a property driver.
func Register(p Property) { registry[p.ID()] = p }

// VerifDir is /verif (the directory holding MANIFEST.json), found from the binary's location or env.
func VerifDir() string {
	if d := os.Getenv("VERIF_DIR"); d != "" {
		return d
	}
	return "/verif"
}

func envInt(name string, def int64) int64 {
	if v := os.Getenv(name); v != "" {
		if n, err := strconv.ParseInt(v, 10, 64); err == nil {
			return n
		}
	}
	return def
}

// Main is the entry point of the vh binary.
func Main() {
	if len(os.Args) < 2 {
		fmt.Fprintln(os.Stderr, "usage: vh run|worker|list ...")
		os.Exit(2)
	}
	switch os.Args[1] {
	case "list":
		ids := []string{}
		for id := range registry {
			ids = append(ids, id)
		}
		sort.Strings(ids)
		fmt.Println(strings.Join(ids, " "))
	case "run":
		os.Exit(parentMain(os.Args[2:]))
	case "worker":
		os.Exit(workerMain(os.Args[2:]))
	case "aux":
		// auxiliary fresh-process computations of a property (references, repetitions)
		if len(os.Args) < 3 {
			os.Exit(2)
		}
		p, ok := registry[os.Args[2]]
		if !ok {
			os.Exit(2)
		}
		a, ok := p.(Auxer)
		if !ok {
			os.Exit(2)
		}
		os.Exit(a.Aux(os.Args[3:]))
	default:
		fmt.Fprintln(os.Stderr, "unknown subcommand", os.Args[1])
		os.Exit(2)
	}
}

// ---------------------------------------------------------------------------------------------
// worker

func workerMain(args []string) int {
	fs := flag.NewFlagSet("worker", flag.ExitOnError)
	prop := fs.String("prop", "", "property id")
	tier := fs.String("tier", "quick", "tier")
	seed := fs.Int64("seed", 1, "seed")
	from := fs.Int("from", 0, "first case")
	to := fs.Int("to", 0, "one past last case")
	skip := fs.String("skip", "", "comma separated case indexes to skip (known to kill the process)")
	out := fs.String("out", "", "summary file")
	replay := fs.Bool("replay", false, "verbose single-case replay")
	_ = fs.Parse(args)

	p, ok := registry[*prop]
	if !ok {
		fmt.Fprintln(os.Stderr, "unknown property", *prop)
		return 2
	}
	skipSet := map[int]bool{}
	for _, s := range strings.Split(*skip, ",") {
		if s == "" {
			continue
		}
		n, _ := strconv.Atoi(s)
		skipSet[n] = true
	}
	// a runaway recursion in the library dies at 256 MB of stack instead of 1 GB (seconds instead of minutes);
	// the deepest legitimate cases (schemas nested 2000 levels) need a few tens of MB
	maxStack := 256 << 20
	if sl, ok := p.(StackLimiter); ok {
		maxStack = sl.MaxStack()
	}
	debug.SetMaxStack(maxStack)
	w := &Worker{Prop: p, Tier: *tier, Seed: *seed, Replay: *replay, WorkDir: filepath.Dir(*out)}
	kf, err := LoadKnownFindings(filepath.Join(VerifDir(), "known_findings.txt"))
	if err != nil {
		fmt.Fprintln(os.Stderr, "known findings:", err)
		return 2
	}
	w.Known = kf
	if *out != "" {
		mf, err := os.OpenFile(*out+".marker", os.O_CREATE|os.O_RDWR|os.O_TRUNC, 0o644)
		if err != nil {
			fmt.Fprintln(os.Stderr, err)
			return 2
		}
		w.marker = mf
	}
	if err := p.Init(w); err != nil {
		fmt.Fprintln(os.Stderr, "INIT-FAILED:", err)
		return 4
	}

	sum := &Summary{From: *from, To: *to, Tags: map[string]int64{}, Nums: map[string]int64{}, Known: map[string]*KnownAgg{}}
	var hashes []uint64
	timeout := 120
	if t, ok := p.(Timeouter); ok {
		timeout = t.CaseTimeout(*tier)
	}

	// bounded-progress watchdog: the same case still running after `timeout` seconds
	var mu sync.Mutex
	cur, curStart := -1, time.Now()
	go func() {
		for {
			time.Sleep(500 * time.Millisecond)
			mu.Lock()
			c, st := cur, curStart
			mu.Unlock()
			if c >= 0 && time.Since(st) > time.Duration(timeout)*time.Second {
				fmt.Fprintf(os.Stderr, "WATCHDOG case=%d exceeded %ds\n", c, timeout)
				buf := make([]byte, 1<<20)
				n := runtime.Stack(buf, true)
				os.Stderr.Write(buf[:n])
				os.Exit(3)
			}
		}
	}()

	for i := *from; i < *to; i++ {
		if skipSet[i] {
			continue
		}
		w.mark(i)
		mu.Lock()
		cur, curStart = i, time.Now()
		mu.Unlock()
		c := runCase(p, w, i)
		mu.Lock()
		cur = -1
		mu.Unlock()
		ev := int64(c.Evals)
		if ev == 0 {
			ev = 1
		}
		sum.Evaluations += ev
		sum.Cases++
		for _, t := range c.Tags {
			sum.Tags[t]++
		}
		for k, v := range c.Nums {
			sum.Nums[k] += v
		}
		if c.Hash != 0 && c.Nontrivial {
			hashes = append(hashes, c.Hash)
		}
		if c.Nontrivial {
			hashes = append(hashes, c.Hashes...)
		}
		if c.Sample != nil && len(sum.Samples) < 3 {
			sum.Samples = append(sum.Samples, c.Sample)
		}
		if c.Inconclusive != "" && len(sum.Inconclusive) < 20 {
			sum.Inconclusive = append(sum.Inconclusive, fmt.Sprintf("case %d: %s", i, c.Inconclusive))
		}
		for _, k := range c.Known {
			if !kf.Listed(p.ID(), k) {
				// a deviation explained by an emulation which is not (or no longer) listed is a violation
				if c.Viol == nil {
					c.Viol = &Violation{What: "deviation matches finding '" + k + "' which is not listed in known_findings.txt: " + c.KnownWhat, Detail: c.Sample}
				}
				continue
			}
			a := sum.Known[k]
			if a == nil {
				a = &KnownAgg{First: c.KnownWhat, Index: i}
				sum.Known[k] = a
			}
			a.Count++
		}
		if c.Viol != nil {
			if len(sum.Violations) < 50 {
				sum.Violations = append(sum.Violations, ViolationRec{Index: i, What: c.Viol.What, Detail: c.Viol.Detail})
			}
			sum.Tags["violation"]++
			if *replay {
				b, _ := json.MarshalIndent(c.Viol, "", " ")
				fmt.Printf("REPLAY case=%d VIOLATED\n%s\n", i, b)
			}
		} else if *replay {
			b, _ := json.MarshalIndent(c.Sample, "", " ")
			fmt.Printf("REPLAY case=%d held (known=%v inconclusive=%q)\n%s\n", i, c.Known, c.Inconclusive, b)
		}
	}
	w.mark(-1)
	sum.Done = true
	if *out != "" {
		b, err := json.Marshal(sum)
		if err != nil {
			fmt.Fprintln(os.Stderr, "marshal summary:", err)
			return 2
		}
		if err := os.WriteFile(*out, b, 0o644); err != nil {
			fmt.Fprintln(os.Stderr, err)
			return 2
		}
		hb := make([]byte, 8*len(hashes))
		for i, h := range hashes {
			binary.LittleEndian.PutUint64(hb[8*i:], h)
		}
		if err := os.WriteFile(*out+".hashes", hb, 0o644); err != nil {
			fmt.Fprintln(os.Stderr, err)
			return 2
		}
	}
	return 0
}

func (w *Worker) mark(i int) {
	if w.marker == nil {
		return
	}
	var b [8]byte
	binary.LittleEndian.PutUint64(b[:], uint64(int64(i)))
	_, _ = w.marker.WriteAt(b[:], 0)
}

func runCase(p Property, w *Worker, i int) (c Case) {
	defer func() {
		if e := recover(); e != nil {
			c = Case{Viol: &Violation{What: fmt.Sprintf("harness-level panic escaped the property driver: %v", e), Detail: string(debug.Stack())}}
		}
	}()
	return p.Run(w, i, NewRand(w.Seed, p.ID(), i))
}

// ---------------------------------------------------------------------------------------------
// parent

type chunk struct {
	from, to int
	skip     []int
	tries    int
}

func parentMain(args []string) int {
	fs := flag.NewFlagSet("run", flag.ExitOnError)
	prop := fs.String("prop", "", "property id")
	tier := fs.String("tier", "quick", "tier")
	replay := fs.String("replay", "", "replay file")
	_ = fs.Parse(args)
	p, ok := registry[*prop]
	if !ok {
		fmt.Fprintln(os.Stderr, "unknown property", *prop)
		return 2
	}
	seed := envInt("VERIF_SEED", 1)
	if t := os.Getenv("VERIF_TIER"); t != "" && (t == "quick" || t == "thorough") && len(fs.Args()) == 0 && !flagSet(fs, "tier") {
		*tier = t
	}
	start := time.Now()
	vdir := VerifDir()
	work, err := os.MkdirTemp(filepath.Join(vdir, ".work"), p.ID()+"-")
	if err != nil {
		_ = os.MkdirAll(filepath.Join(vdir, ".work"), 0o755)
		work, err = os.MkdirTemp(filepath.Join(vdir, ".work"), p.ID()+"-")
		if err != nil {
			fmt.Fprintln(os.Stderr, err)
			return 2
		}
	}
	defer os.RemoveAll(work)

	self, _ := os.Executable()
	bin := self
	race := false
	if r, ok := p.(Racer); ok && r.Race(*tier) {
		race = true
		bin = os.Getenv("VH_RACE_BIN")
		if bin == "" {
			fmt.Fprintln(os.Stderr, "VH_RACE_BIN not set but property needs the race detector")
			return 2
		}
	}

	if *replay != "" {
		return replayMain(p, bin, *replay, work)
	}

	n := p.Cases(*tier)
	par := runtime.NumCPU()
	if pl, ok := p.(Paralleler); ok {
		par = pl.Parallel(*tier)
	}
	csize := (n + par*4 - 1) / (par * 4)
	if c, ok := p.(Chunker); ok {
		csize = c.Chunk(*tier)
	}
	if csize < 1 {
		csize = 1
	}
	var queue []*chunk
	for a := 0; a < n; a += csize {
		b := a + csize
		if b > n {
			b = n
		}
		queue = append(queue, &chunk{from: a, to: b})
	}

	agg := &Aggregate{Extra: map[string]any{}}
	agg.Tags = map[string]int64{}
	agg.Nums = map[string]int64{}
	agg.Known = map[string]*KnownAgg{}
	parentKnown, _ := LoadKnownFindings(filepath.Join(VerifDir(), "known_findings.txt"))
	hashSet := map[uint64]struct{}{}
	var mu sync.Mutex
	var broken []string

	var wg sync.WaitGroup
	qch := make(chan *chunk, len(queue)*27+16)
	var pending sync.WaitGroup
	for _, c := range queue {
		pending.Add(1)
		qch <- c
	}
	go func() { pending.Wait(); close(qch) }()

	for wk := 0; wk < par; wk++ {
		wg.Add(1)
		go func() {
			defer wg.Done()
			for c := range qch {
				res := runChunk(p, bin, race, *tier, seed, c, work)
				mu.Lock()
				switch {
				case res.sum != nil && res.sum.Done:
					mergeSummary(agg, res.sum)
					for _, h := range res.hashes {
						hashSet[h] = struct{}{}
					}
					agg.RaceBlocks = append(agg.RaceBlocks, res.races...)
				case res.initFailed:
					broken = append(broken, "worker init failed: "+res.stderrTail)
				case res.crashedAt >= 0:
					// the process died while running case crashedAt
					c.tries++
					rec := ViolationRec{Index: res.crashedAt, What: res.crashKind, Detail: res.stderrTail}
					agg.RaceBlocks = append(agg.RaceBlocks, res.races...)
					died := !res.hang
					historyDependent := false
					if res.hang {
						// bounded progress: confirm alone before calling it a violation; a case which, alone, kills
						// its process instead of hanging (a runaway recursion reaching the stack limit) is a death
						mu.Unlock() // the confirmation runs take up to two watchdog periods: the other workers go on meanwhile
						alone := confirmHang(p, bin, *tier, seed, res.crashedAt, work)
						if !alone.hang && alone.crashedAt < 0 && res.crashedAt > c.from {
							// not reproduced alone: the hang may depend on what the process did before (a bounded cache
							// filling up, a lock left held): run the same sequence of cases again, up to this one
							again := runChunk(p, bin, false, *tier, seed, &chunk{from: c.from, to: res.crashedAt + 1, skip: c.skip}, work)
							if again.crashedAt == res.crashedAt && (again.hang || again.crashedAt >= 0) {
								alone = again
								rec.What += " (not alone, but again after the same sequence of cases in a fresh process; the rest of this range of cases is not run)"
								historyDependent = true
							}
						}
						mu.Lock()
						switch {
						case alone.hang:
							// did not return alone either: a violation of bounded progress, unless a recorded finding
							// explains it (the classifier sees the goroutine dump of the watchdog)
							died = true
							res.stderrFull = alone.stderrFull
						case alone.crashedAt >= 0:
							died = true
							res.stderrFull = alone.stderrFull
							rec = ViolationRec{Index: res.crashedAt, What: alone.crashKind, Detail: alone.stderrTail}
						default:
							agg.Inconclusive = append(agg.Inconclusive, fmt.Sprintf("case %d: watchdog fired once, not reproduced alone", res.crashedAt))
						}
					}
					if died {
						key := ""
						if cc, ok := p.(CrashClassifier); ok && parentKnown != nil {
							if k := cc.KnownCrash(*tier, seed, res.crashedAt, res.stderrFull); k != "" && parentKnown.Listed(p.ID(), k) {
								key = k
							}
						}
						if key != "" {
							if cur := agg.Known[key]; cur == nil {
								agg.Known[key] = &KnownAgg{Count: 1, Index: res.crashedAt, First: rec.What}
							} else {
								cur.Count++
							}
						} else {
							agg.Crashes = append(agg.Crashes, rec)
						}
					}
					if historyDependent {
						// what hangs is the state the process is in, not this case: every later case of the range would
						// hang the same way (two watchdog periods each); the violation is recorded, the range is dropped
					} else if len(c.skip) < 25 {
						c.skip = append(c.skip, res.crashedAt)
						pending.Add(1)
						qch <- c
					} else {
						broken = append(broken, fmt.Sprintf("chunk %d-%d: too many process deaths", c.from, c.to))
					}
				default:
					broken = append(broken, fmt.Sprintf("chunk %d-%d: child failed without attribution: %s", c.from, c.to, res.stderrTail))
				}
				mu.Unlock()
				pending.Done()
			}
		}()
	}
	wg.Wait()
	agg.Distinct = int64(len(hashSet))

	if f, ok := p.(Finisher); ok {
		broken = append(broken, f.Finish(agg)...)
	}
	return report(p, *tier, seed, agg, broken, time.Since(start), race)
}

func flagSet(fs *flag.FlagSet, name string) bool {
	set := false
	fs.Visit(func(f *flag.Flag) {
		if f.Name == name {
			set = true
		}
	})
	return set
}

type chunkResult struct {
	sum        *Summary
	hashes     []uint64
	crashedAt  int
	crashKind  string
	hang       bool
	initFailed bool
	stderrTail string
	stderrFull string // up to 4 MB of what the child wrote, kept only when it died
	races      []RaceReport
}

func runChunk(p Property, bin string, race bool, tier string, seed int64, c *chunk, work string) chunkResult {
	out := filepath.Join(work, fmt.Sprintf("chunk-%d-%d-%d", c.from, c.to, len(c.skip)))
	skips := make([]string, len(c.skip))
	for i, s := range c.skip {
		skips[i] = strconv.Itoa(s)
	}
	cmd := exec.Command(bin, "worker", "-prop", p.ID(), "-tier", tier, "-seed", strconv.FormatInt(seed, 10),
		"-from", strconv.Itoa(c.from), "-to", strconv.Itoa(c.to), "-skip", strings.Join(skips, ","), "-out", out)
	cmd.Env = append(os.Environ(), "VERIF_DIR="+VerifDir())
	if e, ok := p.(Enver); ok {
		cmd.Env = append(cmd.Env, e.ChildEnv(tier, c.from)...)
	}
	racePrefix := out + ".race"
	if race {
		cmd.Env = append(cmd.Env, "GORACE=halt_on_error=0 exitcode=0 log_path="+racePrefix)
	}
	errFile, _ := os.Create(out + ".stderr")
	cmd.Stderr = errFile
	cmd.Stdout = errFile
	err := cmd.Run()
	errFile.Close()
	res := chunkResult{crashedAt: -1}
	if race {
		res.races = ParseRaceLogs(racePrefix)
		for i := range res.races {
			res.races[i].From = c.from
		}
	}
	tail := tailFile(out+".stderr", 6000)
	res.stderrTail = tail
	if b, rerr := os.ReadFile(out); rerr == nil && err == nil {
		var s Summary
		if json.Unmarshal(b, &s) == nil {
			res.sum = &s
			hb, _ := os.ReadFile(out + ".hashes")
			for i := 0; i+8 <= len(hb); i += 8 {
				res.hashes = append(res.hashes, binary.LittleEndian.Uint64(hb[i:]))
			}
			cleanup(out)
			return res
		}
	}
	// the child died
	if strings.Contains(tail, "INIT-FAILED:") {
		res.initFailed = true
		return res
	}
	if mb, merr := os.ReadFile(out + ".marker"); merr == nil && len(mb) >= 8 {
		idx := int(int64(binary.LittleEndian.Uint64(mb)))
		if idx >= 0 {
			res.crashedAt = idx
			if fb, ferr := os.ReadFile(out + ".stderr"); ferr == nil {
				if len(fb) > 4<<20 {
					fb = fb[:4<<20]
				}
				res.stderrFull = string(fb)
			}
			if ee, ok := err.(*exec.ExitError); ok && ee.ExitCode() == 3 && strings.Contains(tail, "WATCHDOG case=") {
				res.hang = true
				res.crashKind = "bounded-progress watchdog: case did not return"
			} else {
				res.crashKind = "process died (fatal error / unrecoverable panic) while running this case: " + firstFatalLine(tail)
			}
		}
	}
	return res
}

func cleanup(out string) {
	for _, sfx := range []string{"", ".hashes", ".marker", ".stderr"} {
		_ = os.Remove(out + sfx)
	}
}

func firstFatalLine(s string) string {
	for _, l := range strings.Split(s, "\n") {
		if strings.HasPrefix(l, "fatal error:") || strings.HasPrefix(l, "panic:") || strings.Contains(l, "checkptr") {
			return l
		}
	}
	return ""
}

func tailFile(path string, n int) string {
	b, err := os.ReadFile(path)
	if err != nil {
		return ""
	}
	// keep the head for fatal errors (the reason is at the top), bounded
	if len(b) > n {
		return string(b[:n/2]) + "\n...\n" + string(b[len(b)-n/2:])
	}
	return string(b)
}

func confirmHang(p Property, bin, tier string, seed int64, idx int, work string) chunkResult {
	c := &chunk{from: idx, to: idx + 1}
	return runChunk(p, bin, false, tier, seed, c, work)
}

func mergeSummary(a *Aggregate, s *Summary) {
	a.Evaluations += s.Evaluations
	a.Cases += s.Cases
	for k, v := range s.Tags {
		a.Tags[k] += v
	}
	for k, v := range s.Nums {
		a.Nums[k] += v
	}
	for _, x := range s.Samples {
		if len(a.Samples) < 5 {
			a.Samples = append(a.Samples, x)
		}
	}
	a.Violations = append(a.Violations, s.Violations...)
	a.Inconclusive = append(a.Inconclusive, s.Inconclusive...)
	for k, v := range s.Known {
		if cur := a.Known[k]; cur == nil {
			cp := *v
			a.Known[k] = &cp
		} else {
			cur.Count += v.Count
			if v.Index < cur.Index {
				cur.Index, cur.First = v.Index, v.First
			}
		}
	}
}

// report writes the evidence file, prints the verdict lines and returns the exit code.
func report(p Property, tier string, seed int64, a *Aggregate, broken []string, wall time.Duration, race bool) int {
	vdir := VerifDir()
	id := p.ID()
	evDir := filepath.Join(vdir, "evidence")
	if d := os.Getenv("VERIF_EVIDENCE_DIR"); d != "" {
		evDir = d // selftest runs against scratch copies must not overwrite the evidence of the real tree
	}
	_ = os.MkdirAll(filepath.Join(evDir, "replay"), 0o755)

	sort.Slice(a.Violations, func(i, j int) bool { return a.Violations[i].Index < a.Violations[j].Index })
	all := append([]ViolationRec{}, a.Crashes...)
	all = append(all, a.Violations...)
	kf, _ := LoadKnownFindings(filepath.Join(vdir, "known_findings.txt"))
	for _, rb := range a.RaceBlocks {
		if rc, ok := p.(RaceClassifier); ok && kf != nil {
			if key := rc.KnownRace(tier, rb); key != "" && kf.Listed(id, key) {
				if a.Known == nil {
					a.Known = map[string]*KnownAgg{}
				}
				if cur := a.Known[key]; cur == nil {
					a.Known[key] = &KnownAgg{Count: 1, Index: rb.From, First: "race report " + rb.Key}
				} else {
					cur.Count++
				}
				continue
			}
		}
		all = append(all, ViolationRec{Index: -1, What: "DATA RACE reported by the race detector: " + rb.Key, Detail: rb.Text})
	}
	// de-duplicate race reports by key
	seen := map[string]bool{}
	var uniq []ViolationRec
	for _, v := range all {
		if v.Index == -1 {
			if seen[v.What] {
				continue
			}
			seen[v.What] = true
		}
		uniq = append(uniq, v)
	}
	all = uniq

	exit := 0
	var out bytes.Buffer
	if os.Getenv("VERIF_DEBUG") != "" {
		for _, v := range all {
			fmt.Fprintf(os.Stderr, "DEBUG-VIOL case=%d %s\n", v.Index, oneLine(v.What, 700))
		}
	}
	for n, v := range all {
		if n >= 10 {
			break
		}
		path := filepath.Join(evDir, "replay", fmt.Sprintf("%s-%d-%d.json", id, seed, v.Index))
		if v.Index < 0 {
			path = filepath.Join(evDir, "replay", fmt.Sprintf("%s-%d-race%d.json", id, seed, n))
		}
		b, _ := json.MarshalIndent(map[string]any{"property": id, "seed": seed, "tier": tier, "index": v.Index, "what": v.What, "detail": v.Detail}, "", " ")
		_ = os.WriteFile(path, b, 0o644)
		fmt.Fprintf(&out, "VIOLATION property=%s replay=%s\n", id, path)
		fmt.Fprintf(&out, "  what: %s\n", oneLine(v.What, 400))
		exit = 1
	}
	keys := make([]string, 0, len(a.Known))
	for k := range a.Known {
		keys = append(keys, k)
	}
	sort.Strings(keys)
	for _, k := range keys {
		fmt.Fprintf(&out, "KNOWN-FINDING: property=%s %s (explains %d cases; first: case %d: %s)\n", id, k, a.Known[k].Count, a.Known[k].Index, oneLine(a.Known[k].First, 300))
	}

	if a.Evaluations == 0 {
		broken = append(broken, "no case was evaluated")
	}
	if a.Distinct < 2 {
		broken = append(broken, fmt.Sprintf("only %d distinct non-trivial cases", a.Distinct))
	}
	verdict := "held on what was observed"
	if exit == 1 {
		verdict = "violated"
	} else if len(broken) > 0 {
		verdict = "broken-or-inconclusive"
		exit = 2
	} else if len(a.Inconclusive) > 0 {
		verdict = "held on what was decided; some cases inconclusive"
	}

	cov := map[string]any{
		"evaluations":         a.Evaluations,
		"cases":               a.Cases,
		"distinct_nontrivial": a.Distinct,
		"rule":                p.Rule(),
		"samples":             a.Samples,
		"histogram":           a.Tags,
		"counters":            a.Nums,
		"known_findings_seen": a.Known,
		"inconclusive":        a.Inconclusive,
		"broken":              broken,
		"verdict":             verdict,
		"race_detector":       race,
		"technique":           p.Technique(),
	}
	for k, v := range a.Extra {
		cov[k] = v
	}
	if len(a.Samples) == 0 {
		cov["samples"] = []any{"(no sample recorded)"}
	}
	ev := map[string]any{
		"property_id": id,
		"tier":        tier,
		"seed":        seed,
		"level":       p.Level(),
		"coverage":    cov,
		"assumptions": p.Assumptions(),
		"wall_s":      float64(int(wall.Seconds()*10)) / 10,
		"violations":  len(all),
	}
	b, _ := json.MarshalIndent(ev, "", " ")
	_ = os.WriteFile(filepath.Join(evDir, id+".json"), b, 0o644)

	os.Stdout.Write(out.Bytes())
	for _, br := range broken {
		fmt.Printf("BROKEN-CHECK property=%s %s\n", id, oneLine(br, 600))
	}
	for n, ic := range a.Inconclusive {
		if n >= 5 {
			break
		}
		fmt.Printf("INCONCLUSIVE property=%s %s\n", id, oneLine(ic, 300))
	}
	fmt.Printf("RESULT property=%s tier=%s seed=%d verdict=%q evaluations=%d distinct_nontrivial=%d violations=%d known=%d wall=%.1fs\n",
		id, tier, seed, verdict, a.Evaluations, a.Distinct, len(all), len(a.Known), wall.Seconds())
	return exit
}

func oneLine(s string, n int) string {
	s = strings.ReplaceAll(s, "\n", " | ")
	if len(s) > n {
		s = s[:n] + "…"
	}
	return s
}

func replayMain(p Property, bin, path, work string) int {
	b, err := os.ReadFile(path)
	if err != nil {
		fmt.Fprintln(os.Stderr, err)
		return 2
	}
	var r struct {
		Seed  int64  `json:"seed"`
		Tier  string `json:"tier"`
		Index int    `json:"index"`
	}
	if err := json.Unmarshal(b, &r); err != nil {
		fmt.Fprintln(os.Stderr, err)
		return 2
	}
	if r.Index < 0 {
		fmt.Println("race reports are not replayable case by case; re-run the check")
		return 2
	}
	out := filepath.Join(work, "replay")
	cmd := exec.Command(bin, "worker", "-prop", p.ID(), "-tier", r.Tier, "-seed", strconv.FormatInt(r.Seed, 10),
		"-from", strconv.Itoa(r.Index), "-to", strconv.Itoa(r.Index+1), "-out", out, "-replay")
	cmd.Env = append(os.Environ(), "VERIF_DIR="+VerifDir())
	if e, ok := p.(Enver); ok {
		cmd.Env = append(cmd.Env, e.ChildEnv(r.Tier, r.Index)...)
	}
	cmd.Stdout, cmd.Stderr = os.Stdout, os.Stderr
	if err := cmd.Run(); err != nil {
		fmt.Printf("VIOLATION property=%s replay=%s\n  (process died replaying case %d: %v)\n", p.ID(), path, r.Index, err)
		return 1
	}
	sb, _ := os.ReadFile(out)
	var s Summary
	_ = json.Unmarshal(sb, &s)
	if len(s.Violations) > 0 {
		fmt.Printf("VIOLATION property=%s replay=%s\n", p.ID(), path)
		return 1
	}
	return 0
}

// RunAux starts a fresh process of this binary running the property's Aux entry and returns its stdout.
func RunAux(prop string, args ...string) ([]byte, error) {
	self, err := os.Executable()
	if err != nil {
		return nil, err
	}
	cmd := exec.Command(self, append([]string{"aux", prop}, args...)...)
	cmd.Env = append(os.Environ(), "VERIF_DIR="+VerifDir())
	var out, errb bytes.Buffer
	cmd.Stdout, cmd.Stderr = &out, &errb
	if err := cmd.Run(); err != nil {
		return out.Bytes(), fmt.Errorf("aux %s %v: %v: %s", prop, args, err, oneLine(errb.String(), 600))
	}
	return out.Bytes(), nil
}
