// Package props holds one driver per property (C01 ... C20).
package props

import (
	"fmt"

	"verif/harness/lib"
	"verif/harness/model"
)

// base provides defaults shared by the drivers.
type base struct {
	id, level, rule, technique string
	assumptions                []string
	quick, thorough            int
}

func (b *base) ID() string            { return b.id }
func (b *base) Level() string         { return b.level }
func (b *base) Rule() string          { return b.rule }
func (b *base) Technique() string     { return b.technique }
func (b *base) Assumptions() []string { return b.assumptions }
func (b *base) Cases(tier string) int {
	if tier == "thorough" {
		return b.thorough
	}
	return b.quick
}

// initModel checks the draft-4 model against the labelled suite before it is trusted.
func initModel() error {
	n, err := model.SelfCheck()
	if err != nil {
		return fmt.Errorf("draft-4 reference model failed its self-check (%d agreed): %w", n, err)
	}
	return nil
}

func boolTag(prefix string, b bool) string {
	if b {
		return prefix + ":yes"
	}
	return prefix + ":no"
}

var _ = lib.Hash64
