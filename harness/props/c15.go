package props

import (
	"fmt"
	"regexp"
	"regexp/syntax"
	"runtime"
	"strconv"
	"sync"
	"sync/atomic"

	"github.com/go-openapi/strfmt"
	"github.com/go-openapi/validate"

	"verif/harness/gen"
	"verif/harness/lib"
	"verif/harness/sut"
)

// C15 — pattern matching always uses the expression that was asked for.
type c15 struct{ base }

func init() {
	lib.Register(&c15{base{
		id: "C15", level: "exploration",
		technique: "race detector + runtime reference monitor: one fresh process (fresh regexp cache, built with -race) per configuration; 1..64 goroutines released by a barrier hammer validate.Pattern and pattern / patternProperties schemas with pattern families engineered to collide under any plausible wrong cache key; every answer is compared online with Go regexp compiled by the harness from that very pattern; the race-detector log of each process is parsed by the parent",
		rule:      "one case = one configuration (goroutines in {1,2,4,8,16,32,64} x GOMAXPROCS in {1,2,4,16} x seed) = rounds in which all goroutines first-use the same new shared pattern at the same time, then mix shared, private (goroutine-tagged) and invalid patterns, each probed with strings that separate it from every sibling of its family; distinct = the configuration; non-trivial = >=2 goroutines (first-time compiles can collide)",
		assumptions: []string{
			"sampled schedules: a clean race-detector run says nothing about interleavings that were not produced; goroutines are kept alive until the end of the run so that the detector does not forget their accesses",
			"Go's regexp package is the definition of matching, as the property states",
		},
		quick: 14, thorough: 84,
	}})
}

func (p *c15) Init(w *lib.Worker) error { return nil }
func (p *c15) Race(string) bool         { return true }
func (p *c15) Chunk(string) int         { return 1 }
func (p *c15) Parallel(tier string) int { return 4 }
func (p *c15) CaseTimeout(string) int   { return 600 }

var c15Goroutines = []int{1, 2, 4, 8, 16, 32, 64}
var c15Procs = []int{1, 2, 4, 16}

func (p *c15) config(idx int) (g, procs int) {
	return c15Goroutines[idx%len(c15Goroutines)], c15Procs[(idx/len(c15Goroutines)+idx)%len(c15Procs)]
}

func (p *c15) ChildEnv(tier string, from int) []string {
	_, procs := p.config(from)
	return []string{"GOMAXPROCS=" + strconv.Itoa(procs)}
}

// families of patterns which collide under a wrong key (prefix, suffix, case, anchoring, flags, escapes)
func c15Family(tag string) []string {
	return []string{
		"^" + tag + "a", "^" + tag + "a$", tag + "a", tag + "a$", "(?i)^" + tag + "a", "(?i)" + tag + "A", "^" + tag + "A",
		"^" + tag + "a.", "^" + tag + `a\.`, "^" + tag + "a[.]", "^" + tag + "ab", "^" + tag + "a|b", "^(" + tag + "a|b)$",
		tag + "a+", tag + "a*", "^" + tag + "[a-c]+$", "^" + tag + "[^a]", tag, "^" + tag, tag + "$",
		// white space is significant in a pattern: padded siblings of the patterns above
		"^" + tag + "a ", " ^" + tag + "a", "^" + tag + "a$\n", tag + "a\t", "\n" + tag + "a", tag + " ", "^" + tag + "a$ ",
	}
}

func c15Invalid(tag string) []string {
	return []string{"(" + tag, tag + "[a", tag + "a{2,1}", "(?P<n" + tag, "*" + tag, tag + `\`,
		// invalid patterns whose parse error points at a fragment which is itself a (different) pattern
		tag + "[z-a]", "[" + tag + `-\d]`, tag + "[[:foo:]]", tag + "x**", "[z-a]", `abc\`, "(?i)[z-a]" + tag}
}

// c15Fragments returns, for invalid patterns, the fragment their parse error points at (whatever it is: valid or
// not): a wrong cache key derived from the error instead of the pattern makes these collide with their parents.
func c15Fragments(invalid []string) []string {
	var out []string
	for _, p := range invalid {
		if _, err := regexp.Compile(p); err != nil {
			if se, ok := err.(*syntax.Error); ok && se.Expr != p {
				out = append(out, se.Expr)
			}
		}
	}
	return out
}

func c15Probes(tag string) []string {
	return []string{tag + "a", tag + "A", "x" + tag + "a", tag + "ab", tag + "a.", tag + "ax", tag + "aa", tag, "b", "", tag + "b", tag + "abc", "x" + tag + "ax", tag + "c",
		tag + "a ", " " + tag + "a", tag + "a\n", tag + " x"}
}

type c15Table struct {
	pat    string
	probe  string
	wantOK bool // nil error expected
}

func c15Expect(pat, probe string) bool {
	re, err := regexp.Compile(pat)
	return err == nil && re.MatchString(probe)
}

func (p *c15) Run(w *lib.Worker, idx int, r *lib.Rand) lib.Case {
	g, procs := p.config(idx)
	rounds := 12
	callsPerRound := 120
	if w.Tier == "thorough" {
		rounds, callsPerRound = 30, 300
	}
	c := lib.Case{Hash: lib.Hash64([]byte(fmt.Sprintf("g=%d procs=%d idx=%d", g, runtime.GOMAXPROCS(0), idx))), Nontrivial: g >= 2}

	// per-round shared family (new patterns every round: first-time compiles collide), private families per goroutine
	var mismatches atomic.Int64
	var calls atomic.Int64
	var firstMismatch atomic.Value
	var patterns sync.Map
	start := make([]chan struct{}, rounds)
	for i := range start {
		start[i] = make(chan struct{})
	}
	var wgRound sync.WaitGroup
	done := make(chan struct{})
	var wgAll sync.WaitGroup

	check := func(pat, probe, how string, gotOK bool) {
		calls.Add(1)
		want := c15Expect(pat, probe)
		if gotOK != want {
			mismatches.Add(1)
			firstMismatch.CompareAndSwap(nil, fmt.Sprintf("%s pattern=%q data=%q: library says match=%v, regexp.Compile(pattern).MatchString says %v", how, pat, probe, gotOK, want))
		}
	}
	one := func(rr *lib.Rand, pat, probe string) {
		patterns.Store(pat, true)
		switch rr.Intn(5) {
		case 0:
			// through a pattern schema
			st := gen.JSON(map[string]any{"type": "string", "pattern": pat})
			o := sut.Against(st, gen.JSON(probe), strfmt.Default)
			if o.Panic != "" {
				mismatches.Add(1)
				firstMismatch.CompareAndSwap(nil, "panic: "+o.Panic)
				return
			}
			check(pat, probe, "AgainstSchema{pattern}", o.Valid)
		case 1:
			// through patternProperties: the member named probe must be validated by the sub-schema iff the pattern matches
			st := gen.JSON(map[string]any{"type": "object", "patternProperties": map[string]any{pat: map[string]any{"type": "integer"}}})
			o := sut.Against(st, gen.JSON(map[string]any{probe: "not an integer"}), strfmt.Default)
			if o.Panic != "" {
				mismatches.Add(1)
				firstMismatch.CompareAndSwap(nil, "panic: "+o.Panic)
				return
			}
			if _, err := regexp.Compile(pat); err != nil {
				calls.Add(1)
				if !o.Valid { // an invalid pattern key is skipped by the object validator
					mismatches.Add(1)
					firstMismatch.CompareAndSwap(nil, fmt.Sprintf("patternProperties with invalid pattern %q rejected member %q", pat, probe))
				}
				return
			}
			check(pat, probe, "AgainstSchema{patternProperties}", !o.Valid)
		default:
			e := validate.Pattern("p", "body", probe, pat)
			check(pat, probe, "Pattern", e == nil)
		}
	}

	for gi := 0; gi < g; gi++ {
		wgAll.Add(1)
		rr := r.Fork()
		go func(gi int, rr *lib.Rand) {
			defer wgAll.Done()
			private := c15Family(fmt.Sprintf("g%dx", gi))
			privProbes := c15Probes(fmt.Sprintf("g%dx", gi))
			for round := 0; round < rounds; round++ {
				<-start[round]
				tag := fmt.Sprintf("r%dy", round)
				shared := c15Family(tag)
				invalid := c15Invalid(tag)
				probes := c15Probes(tag)
				// the fragments of the invalid patterns' parse errors, used as patterns of their own after their parents
				frags := c15Fragments(invalid)
				fragProbes := append([]string{"z-a", "z", "-", "a", "", "x*", "[:foo:]", ":", tag}, probes[:4]...)
				// every goroutine first-uses the same new patterns right now, in the same order
				for k := 0; k < 6 && k < len(shared); k++ {
					one(rr, shared[(round+k)%len(shared)], probes[k%len(probes)])
				}
				for k := 0; k < callsPerRound; k++ {
					switch rr.Weighted(5, 3, 1, 1) {
					case 0:
						one(rr, shared[rr.Intn(len(shared))], probes[rr.Intn(len(probes))])
					case 1:
						one(rr, private[rr.Intn(len(private))], privProbes[rr.Intn(len(privProbes))])
					case 2:
						one(rr, invalid[rr.Intn(len(invalid))], probes[rr.Intn(len(probes))])
						if len(frags) > 0 && rr.P(0.5) {
							one(rr, frags[rr.Intn(len(frags))], fragProbes[rr.Intn(len(fragProbes))])
						}
					default:
						// an older round's pattern: repeated use
						if round > 0 {
							ot := fmt.Sprintf("r%dy", rr.Intn(round))
							of := c15Family(ot)
							one(rr, of[rr.Intn(len(of))], c15Probes(ot)[rr.Intn(len(c15Probes(ot)))])
						}
					}
				}
				wgRound.Done()
			}
			<-done // stay alive: the race detector forgets finished goroutines
		}(gi, rr)
	}
	for round := 0; round < rounds; round++ {
		wgRound.Add(g)
		close(start[round])
		wgRound.Wait()
	}
	close(done)
	wgAll.Wait()

	np := 0
	patterns.Range(func(_, _ any) bool { np++; return true })
	c.Evals = int(calls.Load())
	c.Nums = map[string]int64{"pattern_calls": calls.Load(), "distinct_patterns": int64(np), "simultaneous_first_use_rounds": int64(rounds * 6), "goroutines": int64(g)}
	c.Tags = []string{fmt.Sprintf("goroutines:%d", g), fmt.Sprintf("GOMAXPROCS:%d", runtime.GOMAXPROCS(0)), fmt.Sprintf("GOMAXPROCS-requested:%d", procs)}
	c.Sample = map[string]any{"goroutines": g, "GOMAXPROCS": runtime.GOMAXPROCS(0), "rounds": rounds, "calls": calls.Load(), "distinct_patterns": np, "example_family": c15Family("r0y")[:6]}
	if m := mismatches.Load(); m > 0 {
		fm, _ := firstMismatch.Load().(string)
		c.Viol = &lib.Violation{What: fmt.Sprintf("%d pattern answers differ from Go regexp on the asked pattern (g=%d, GOMAXPROCS=%d); first: %s", m, g, runtime.GOMAXPROCS(0), fm), Detail: c.Sample}
	}
	return c
}

func (p *c15) Finish(a *lib.Aggregate) (broken []string) {
	if a.Nums["pattern_calls"] < 10000 {
		broken = append(broken, "too few pattern calls observed")
	}
	multi := int64(0)
	for _, g := range c15Goroutines[1:] {
		multi += a.Tags[fmt.Sprintf("goroutines:%d", g)]
	}
	if multi == 0 {
		broken = append(broken, "no multi-goroutine configuration ran")
	}
	return
}
