package props

import (
	"strings"
	"sync"
	"unicode/utf8"

	"github.com/go-openapi/strfmt"

	"verif/harness/lib"
)

// A caller-supplied format registry which disagrees with strfmt.Default on every format name the
// generators use: some names are redefined, some are removed (so they are unknown and must not be
// asserted), some exist only here.  The property delegates format assertions to "the supplied
// registry": a validator which consults any other registry at some nesting level gives a verdict
// which differs from the reference model evaluated with this very registry.
var (
	altRegOnce sync.Once
	altReg     strfmt.Registry
)

func altRegistry() strfmt.Registry {
	altRegOnce.Do(func() {
		reg := strfmt.NewFormats()
		var pw strfmt.Password
		even := func(s string) bool { return utf8.RuneCountInString(s)%2 == 0 }
		reg.Add("date", &pw, even)
		reg.Add("uuid", &pw, func(string) bool { return true })
		reg.Add("email", &pw, func(s string) bool { return !strings.Contains(s, "@") })
		reg.Add("hostname", &pw, func(s string) bool { return strings.HasPrefix(s, "a") })
		reg.DelByName("hexcolor")
		reg.DelByName("ipv4")
		reg.Add("x-even", &pw, even)
		reg.Add("x-caps", &pw, func(s string) bool { return s == strings.ToUpper(s) })
		altReg = reg
	})
	return altReg
}

var altFormatNames = []string{"x-even", "x-caps", "x-unknown", "date", "hexcolor"}

// renameFormats rewrites some "format" members of a generated schema to names which only the
// alternative registry knows (or which nobody knows).  Draws come from r after the pair was generated,
// so the pair itself is the one the plain generator produces.
func renameFormats(r *lib.Rand, node any) {
	switch t := node.(type) {
	case map[string]any:
		if f, ok := t["format"].(string); ok && f != "" && r.P(0.4) {
			t["format"] = altFormatNames[r.Intn(len(altFormatNames))]
		}
		for _, k := range sortedKeysAny(t) {
			renameFormats(r, t[k])
		}
	case []any:
		for _, e := range t {
			renameFormats(r, e)
		}
	}
}
