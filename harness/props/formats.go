package props

import (
	"strings"
	"sync"
	"unicode/utf8"

	"github.com/go-openapi/strfmt"

	"verif/harness/gen"
	"verif/harness/lib"
)

// A caller-supplied format registry which disagrees with strfmt.Default on every format name the
// generators use: some names are redefined, some are removed (so they are unknown and must not be
// asserted), some exist only here.  The property delegates format assertions to "the supplied
// registry": a validator which consults any other registry at some nesting level gives a verdict
// which differs from the reference model evaluated with this very registry.
var (
	altRegOnce sync.Once
	altReg     strfmt.Registry
)

func altRegistry() strfmt.Registry {
	altRegOnce.Do(func() {
		reg := strfmt.NewFormats()
		var pw strfmt.Password
		even := func(s string) bool { return utf8.RuneCountInString(s)%2 == 0 }
		reg.Add("date", &pw, even)
		reg.Add("uuid", &pw, func(string) bool { return true })
		reg.Add("email", &pw, func(s string) bool { return !strings.Contains(s, "@") })
		reg.Add("hostname", &pw, func(s string) bool { return strings.HasPrefix(s, "a") })
		reg.DelByName("hexcolor")
		reg.DelByName("ipv4")
		reg.Add("x-even", &pw, even)
		reg.Add("x-caps", &pw, func(s string) bool { return s == strings.ToUpper(s) })
		altReg = reg
	})
	return altReg
}

var altFormatNames = []string{"x-even", "x-caps", "x-unknown", "date", "hexcolor"}

// renameFormats rewrites some "format" members of a generated schema to names which only the
// alternative registry knows (or which nobody knows).  Draws come from r after the pair was generated,
// so the pair itself is the one the plain generator produces.
func renameFormats(r *lib.Rand, node any) {
	switch t := node.(type) {
	case map[string]any:
		if f, ok := t["format"].(string); ok && f != "" && r.P(0.4) {
			t["format"] = altFormatNames[r.Intn(len(altFormatNames))]
		}
		for _, k := range sortedKeysAny(t) {
			renameFormats(r, t[k])
		}
	case []any:
		for _, e := range t {
			renameFormats(r, e)
		}
	}
}

// injectSwaggerish adds, to some objects of a generated instance, members which mean something in a
// Swagger document ("headers" holding a "$ref", a "type":"array" without "items", a stray "$ref"): plain
// schema validation has no business treating them specially.  Draws come after the pair was generated.
func injectSwaggerish(r *lib.Rand, node any, depth int) (n int) {
	switch t := node.(type) {
	case map[string]any:
		for _, k := range sortedKeysAny(t) {
			n += injectSwaggerish(r, t[k], depth+1)
		}
		if r.P(0.5) {
			switch r.Intn(4) {
			case 0, 1:
				t["headers"] = map[string]any{"x": map[string]any{"$ref": "#/y"}}
			case 2:
				t["type"] = "array"
			default:
				t["$ref"] = "#/definitions/nowhere"
			}
			n++
		}
	case []any:
		for _, e := range t {
			n += injectSwaggerish(r, e, depth+1)
		}
	}
	return n
}

// closedCompositionPair builds a pair directly: a composition (oneOf / anyOf / allOf / not, possibly nested
// under a property) whose alternatives are drawn from a few closed-object and permissive schemas, with an
// object instance carrying Swagger-flavoured members.  The order of valid and failing alternatives varies.
func closedCompositionPair(r *lib.Rand) (doc map[string]any, inst any) {
	alts := []func() map[string]any{
		func() map[string]any { return map[string]any{} },
		func() map[string]any { return map[string]any{"additionalProperties": false} },
		func() map[string]any {
			return map[string]any{"additionalProperties": false, "properties": map[string]any{"headers": map[string]any{}}}
		},
		func() map[string]any { return map[string]any{"type": "object"} },
		func() map[string]any { return map[string]any{"required": []any{"zz"}} },
		func() map[string]any {
			return map[string]any{"additionalProperties": false, "patternProperties": map[string]any{"^h": map[string]any{"type": "object"}}}
		},
		func() map[string]any { return map[string]any{"maxProperties": gen.I(r.Range(0, 2))} },
	}
	n := r.Range(2, 4)
	list := make([]any, n)
	for i := range list {
		list[i] = alts[r.Intn(len(alts))]()
	}
	kw := r.Pick("oneOf", "oneOf", "anyOf", "allOf")
	doc = map[string]any{kw: list}
	if r.P(0.2) {
		doc = map[string]any{"not": doc}
	}
	obj := map[string]any{}
	if r.P(0.8) {
		obj["headers"] = map[string]any{"x": map[string]any{"$ref": "#/y"}}
	}
	if r.P(0.3) {
		obj["type"] = "array"
	}
	if r.P(0.3) {
		obj["hx"] = map[string]any{"$ref": "#/y"}
	}
	if r.P(0.2) {
		obj["zz"] = gen.I(1)
	}
	inst = obj
	if r.P(0.3) {
		doc = map[string]any{"properties": map[string]any{"p": doc}}
		inst = map[string]any{"p": obj}
	}
	return doc, inst
}

// formatLeafPair builds a schema with one leaf {type: string, format: F} below one or two nesting positions and an
// instance which carries a string at that place.  F and the string are drawn so that strfmt.Default and the
// alternative registry mostly disagree (redefined, removed and registry-only names).
func formatLeafPair(r *lib.Rand) (doc map[string]any, inst any) {
	f := []string{"date", "email", "hostname", "uuid", "x-even", "x-caps", "hexcolor", "ipv4"}[r.Intn(8)]
	str := []string{"ab", "abc", "2020-01-31", "a@b.co", "example.com", "AB", "#fff", "1.2.3.4", "zz9", ""}[r.Intn(10)]
	doc = map[string]any{"type": "string", "format": f}
	inst = str
	for depth := r.Range(1, 2); depth > 0; depth-- {
		switch r.Intn(11) {
		case 0:
			doc, inst = map[string]any{"properties": map[string]any{"p": doc}}, map[string]any{"p": inst}
		case 1:
			doc, inst = map[string]any{"patternProperties": map[string]any{"^p": doc}}, map[string]any{"pq": inst}
		case 2:
			doc, inst = map[string]any{"additionalProperties": doc}, map[string]any{"other": inst}
		case 3:
			doc, inst = map[string]any{"properties": map[string]any{"known": map[string]any{}}, "additionalProperties": doc}, map[string]any{"known": gen.I(1), "more": inst}
		case 4:
			doc, inst = map[string]any{"items": doc}, []any{inst}
		case 5:
			doc, inst = map[string]any{"items": []any{map[string]any{}, doc}}, []any{gen.I(0), inst}
		case 6:
			doc, inst = map[string]any{"items": []any{map[string]any{}}, "additionalItems": doc}, []any{gen.I(0), inst}
		case 7:
			doc = map[string]any{r.Pick("allOf", "anyOf", "oneOf"): []any{doc}}
		case 8:
			doc = map[string]any{"not": doc}
		case 9:
			doc, inst = map[string]any{"dependencies": map[string]any{"trigger": map[string]any{"properties": map[string]any{"p": doc}}}}, map[string]any{"trigger": true, "p": inst}
		default:
			doc = map[string]any{"allOf": []any{map[string]any{"$ref": "#/definitions/leaf"}}, "definitions": map[string]any{"leaf": doc}}
			return doc, inst // definitions must stay at the root
		}
	}
	return doc, inst
}
