package props

import (
	"fmt"
	"sort"
	"strconv"
	"strings"

	oaerrors "github.com/go-openapi/errors"
	"github.com/go-openapi/strfmt"
	"github.com/go-openapi/validate"

	"verif/harness/gen"
	"verif/harness/lib"
	"verif/harness/model"
	"verif/harness/sut"
)

// C17 — every rejection is explained by well-formed, correctly located errors.
type c17 struct{ base }

func init() {
	lib.Register(&c17{base{
		id: "C17", level: "exploration",
		technique: "runtime structural oracle on results: (a) on generated pairs x root paths, the error value of AgainstSchema and the Result of a validator object are inspected online (nil/422 composite, message sets equal, no duplicates, every *errors.Validation named by an extension of the root by names/indices of the instance); (b) single-fault differential: one violation is planted at a known location reached through properties/patternProperties/additionalProperties/tuple items and the monitor demands a field-level error named exactly root.<path>",
		rule: "even cases: C01's pair generator with a root path drawn from {\"\",body,a.b,ünï,root}; odd cases: a permissive schema/instance skeleton of depth 1-5 built along a random path of property / pattern-property / additional-property / tuple-item steps with exactly one planted fault of 15 kinds at the leaf; numbers of the instance travel as float64 or (json.Number decoding) as Go integers; distinct = FNV-64 of schema+instance+root; non-trivial = the verdict is invalid (there is something to explain)",
		assumptions: []string{
			"location accuracy is demanded only for nesting through properties, patternProperties, additionalProperties and tuple items with member names free of dots, as the property states; property-not-allowed errors (named by their parent object) are not planted",
			"with an empty root path both \"a.b\" and \".a.b\" are accepted as names of member a.b (the library mixes both spellings; the property does not choose)",
			"sampled input space",
		},
		quick: 200000, thorough: 5000000,
	}})
}

func (p *c17) Init(w *lib.Worker) error { return initModel() }

var c17Roots = []string{"", "body", "a.b", "ünï", "root", "r%s", "100%"}

type step struct {
	kind string // prop | pattern | additional | tuple
	name string
	idx  int
}

func (p *c17) Run(w *lib.Worker, idx int, r *lib.Rand) lib.Case {
	if idx%2 == 0 {
		return p.generic(idx, r)
	}
	return p.singleFault(idx, r)
}

// nameTokens collects every member name occurring in the instance or named by the schema, and the array lengths.
func nameTokens(v any, names map[string]bool, maxLen *int) {
	switch x := v.(type) {
	case map[string]any:
		for k, e := range x {
			names[k] = true
			nameTokens(e, names, maxLen)
		}
	case []any:
		if len(x) > *maxLen {
			*maxLen = len(x)
		}
		for _, e := range x {
			if s, ok := e.(string); ok {
				names[s] = true // "required" lists and enum strings
			}
			nameTokens(e, names, maxLen)
		}
	}
}

// segmentable tells whether rest (after the root) splits at dots into known names / indices.
func segmentable(rest string, names map[string]bool, maxLen int) bool {
	if rest == "" {
		return true
	}
	for i := 1; i <= len(rest); i++ {
		if i < len(rest) && rest[i] != '.' {
			continue
		}
		tok := rest[:i]
		ok := names[tok]
		if !ok {
			if n, err := strconv.Atoi(tok); err == nil && n >= 0 && n < maxLen {
				ok = true
			}
		}
		if ok {
			if i == len(rest) || segmentable(rest[i+1:], names, maxLen) {
				return true
			}
		}
	}
	return false
}

func (p *c17) generic(idx int, r *lib.Rand) lib.Case {
	root := c17Roots[r.Intn(len(c17Roots))]
	_, doc, instRaw := genPair(r, gen.SchemaOpts{MaxDepth: 3, Refs: true, SpecialNames: false})
	st, it := gen.JSON(doc), gen.JSON(instRaw)
	c := lib.Case{Hash: lib.Hash64([]byte(string(st) + "\x00" + string(it) + "\x00" + root)), Evals: 3}
	sample := map[string]any{"schema": string(st), "instance": string(it), "root": root}
	fail := func(what string, extra any) lib.Case {
		sample["observed"] = extra
		c.Viol = &lib.Violation{What: what + fmt.Sprintf(" schema=%s instance=%s root=%q", st, it, root), Detail: sample}
		return c
	}

	// (1) the one-shot entry point versus the underlying result (root "")
	var againstErr error
	o1 := sut.Guard(func() sut.Outcome {
		s, _ := sut.Schema(st)
		v, _ := sut.Value(it)
		againstErr = validate.AgainstSchema(s, v, strfmt.Default)
		return sut.FromError(againstErr)
	})
	o2 := sut.WithValidator(st, it, "", strfmt.Default)
	if o1.Panic != "" || o2.Panic != "" {
		if isSpecMarshalPanic(o1.Panic+o2.Panic, st) {
			return lib.Case{Tags: []string{"skipped:spec-marshal"}}
		}
		return fail("panic: "+o1.Panic+o2.Panic, nil)
	}
	if againstErr != nil {
		ce, ok := againstErr.(*oaerrors.CompositeError)
		if !ok {
			return fail(fmt.Sprintf("AgainstSchema returned a %T, not a *errors.CompositeError", againstErr), againstErr.Error())
		}
		if ce.Code() != 422 {
			return fail(fmt.Sprintf("composite error has code %d, not 422", ce.Code()), nil)
		}
		if len(ce.Errors) == 0 {
			return fail("AgainstSchema returned a composite error without messages", nil)
		}
	}
	if o1.Valid != o2.Valid {
		return fail("AgainstSchema and the validator object disagree on the verdict", []any{o1, o2})
	}
	if strings.Join(o1.Errors, "\x1f") != strings.Join(o2.Errors, "\x1f") {
		return fail("messages of AgainstSchema differ from the messages of the underlying result", []any{o1.Errors, o2.Errors})
	}
	for i := 1; i < len(o1.Errors); i++ {
		if o1.Errors[i] == o1.Errors[i-1] {
			return fail("duplicate message in the composite error: "+o1.Errors[i], o1.Errors)
		}
	}

	// (2) the result with a caller-chosen root: verdict <=> errors; names extend the root
	var res *validate.Result
	o3 := sut.Guard(func() sut.Outcome {
		s, _ := sut.Schema(st)
		v, _ := sut.Value(it)
		res = validate.NewSchemaValidator(s, nil, root, strfmt.Default).Validate(v)
		return sut.FromResult(res)
	})
	if o3.Panic != "" {
		return fail("panic: "+o3.Panic, nil)
	}
	if o3.Valid != o1.Valid {
		return fail("verdict depends on the root path", []any{o1, o3})
	}
	if res.IsValid() != (len(res.Errors) == 0) || res.HasErrors() == res.IsValid() {
		return fail("validity is not the absence of errors", o3)
	}
	for i := 1; i < len(o3.Errors); i++ {
		if o3.Errors[i] == o3.Errors[i-1] {
			return fail("duplicate message in the result: "+o3.Errors[i], o3.Errors)
		}
	}
	c.Nontrivial = !o3.Valid
	c.Tags = append(c.Tags, "generic", boolTag("valid", o3.Valid), "root:"+root)
	names := map[string]bool{}
	maxLen := 0
	instV, _ := model.Parse(it)
	schV, _ := model.Parse(st)
	nameTokens(instV, names, &maxLen)
	nameTokens(schV, names, &maxLen)
	nval := 0
	checkNames := func(res *validate.Result, carrier string, msgs []string) *lib.Case {
		for _, e := range res.Errors {
			ve, ok := e.(*oaerrors.Validation)
			if !ok {
				continue
			}
			nval++
			name := ve.Name
			var rest string
			switch {
			case name == root:
				continue
			case root == "":
				rest = strings.TrimPrefix(name, ".")
			case strings.HasPrefix(name, root+"."):
				rest = name[len(root)+1:]
			default:
				f := fail(fmt.Sprintf("field-level error named %q is not the root path %q nor an extension of it (%s numbers): %s", name, root, carrier, e.Error()), msgs)
				return &f
			}
			if !segmentable(rest, names, maxLen) {
				f := fail(fmt.Sprintf("field-level error name %q extends the root by something which is neither a member name nor an index of the instance (%s numbers): %s", name, carrier, e.Error()), msgs)
				return &f
			}
		}
		return nil
	}
	if f := checkNames(res, "float64", o3.Errors); f != nil {
		return *f
	}
	// (3) the same instance decoded with json.Number (integers then travel as Go integers): same structural demands
	var resN *validate.Result
	o4 := sut.Guard(func() sut.Outcome {
		s, _ := sut.Schema(st)
		v, _ := decodeNumber(it)
		resN = validate.NewSchemaValidator(s, nil, root, strfmt.Default).Validate(v)
		return sut.FromResult(resN)
	})
	if o4.Panic != "" {
		return fail("panic (json.Number instance): "+o4.Panic, nil)
	}
	c.Evals++
	if resN.IsValid() != (len(resN.Errors) == 0) || resN.HasErrors() == resN.IsValid() {
		return fail("validity is not the absence of errors (json.Number instance)", o4)
	}
	if f := checkNames(resN, "json.Number", o4.Errors); f != nil {
		return *f
	}
	c.Nums = map[string]int64{"field_level_errors_checked": int64(nval)}
	if idx%50000 == 0 {
		sample["errors"] = o3.Errors
		c.Sample = sample
	}
	return c
}

var c17Faults = []string{"type", "maximum", "minLength", "enum", "pattern", "required", "maxItems", "minimum-exclusive",
	"multipleOf-fraction", "multipleOf-integer", "maximum-integer", "uniqueItems", "minProperties", "maxLength", "format"}

func (p *c17) singleFault(idx int, r *lib.Rand) lib.Case {
	root := c17Roots[r.Intn(len(c17Roots))]
	depth := r.Range(1, 5)
	names := []string{"a", "b", "c", "foo", "bar", "x-1", "ünï", "n0", "items", "default", "é1", "50%d", "pct%", "%v"}
	steps := make([]step, depth)
	for i := range steps {
		switch r.Intn(5) {
		case 4:
			// an element beyond the tuple, judged by a schema-valued additionalItems (positional as well)
			steps[i] = step{kind: "beyond", idx: r.Range(1, 3)}
		case 0:
			steps[i] = step{kind: "prop", name: names[r.Intn(len(names))]}
		case 1:
			steps[i] = step{kind: "pattern", name: "x-" + names[r.Intn(len(names))]}
		case 2:
			steps[i] = step{kind: "additional", name: "z" + names[r.Intn(len(names))]}
		default:
			steps[i] = step{kind: "tuple", idx: r.Range(0, 2)}
		}
	}
	fault := c17Faults[r.Intn(len(c17Faults))]
	// leaf
	var leafSchema map[string]any
	var leafVal any
	missing := ""
	switch fault {
	case "type":
		leafSchema, leafVal = map[string]any{"type": "integer"}, "not-an-integer"
	case "maximum":
		leafSchema, leafVal = map[string]any{"type": "number", "maximum": gen.I(5)}, gen.I(7)
	case "minimum-exclusive":
		leafSchema, leafVal = map[string]any{"type": "number", "minimum": gen.I(5), "exclusiveMinimum": true}, gen.I(5)
	case "minLength":
		leafSchema, leafVal = map[string]any{"type": "string", "minLength": gen.I(3)}, "éé"
	case "enum":
		leafSchema, leafVal = map[string]any{"enum": []any{"x", gen.I(1)}}, "y"
	case "pattern":
		leafSchema, leafVal = map[string]any{"type": "string", "pattern": "^a"}, "b"
	case "maxItems":
		leafSchema, leafVal = map[string]any{"type": "array", "maxItems": gen.I(1)}, []any{gen.I(1), gen.I(2)}
	case "multipleOf-fraction":
		leafSchema, leafVal = map[string]any{"type": r.Pick("integer", "number"), "multipleOf": gen.N("2.5")}, gen.I(7)
	case "multipleOf-integer":
		leafSchema, leafVal = map[string]any{"type": r.Pick("integer", "number"), "multipleOf": gen.I(3)}, gen.I(7)
	case "maximum-integer":
		leafSchema, leafVal = map[string]any{"type": "integer", "maximum": gen.N("6.5"), "exclusiveMaximum": r.Bool()}, gen.I(7)
	case "uniqueItems":
		leafSchema, leafVal = map[string]any{"type": "array", "uniqueItems": true}, []any{gen.I(1), "a", gen.I(1)}
	case "minProperties":
		leafSchema, leafVal = map[string]any{"type": "object", "minProperties": gen.I(2)}, map[string]any{"only": gen.I(1)}
	case "maxLength":
		leafSchema, leafVal = map[string]any{"type": "string", "maxLength": gen.I(2)}, "ééé"
	case "format":
		leafSchema, leafVal = map[string]any{"type": "string", "format": "date"}, "not-a-date"
	case "required":
		missing = "must"
		leafSchema, leafVal = map[string]any{"type": "object", "required": []any{missing}}, map[string]any{"other": gen.I(1)}
	}
	// build upwards
	schema, val := leafSchema, leafVal
	for i := depth - 1; i >= 0; i-- {
		s := steps[i]
		switch s.kind {
		case "prop":
			schema = map[string]any{"type": "object", "properties": map[string]any{s.name: schema, "sib": map[string]any{}}}
			val = map[string]any{s.name: val, "sib": gen.I(1), "free": "x"}
		case "pattern":
			schema = map[string]any{"type": "object", "patternProperties": map[string]any{"^x-": schema}, "properties": map[string]any{"sib": map[string]any{"type": "integer"}}}
			val = map[string]any{s.name: val, "sib": gen.I(1)}
		case "additional":
			schema = map[string]any{"type": "object", "additionalProperties": schema, "properties": map[string]any{"sib": map[string]any{}}, "patternProperties": map[string]any{"^x-": map[string]any{}}}
			val = map[string]any{s.name: val, "sib": true, "x-free": gen.I(3)}
		case "beyond":
			// a tuple of s.idx permissive members; the offending element is the first one beyond it, judged by additionalItems
			tuple := make([]any, s.idx)
			arr := make([]any, s.idx+1)
			for k := range tuple {
				tuple[k] = map[string]any{}
				arr[k] = gen.I(k)
			}
			arr[s.idx] = val
			schema = map[string]any{"type": "array", "items": tuple, "additionalItems": schema}
			val = arr
		case "tuple":
			tuple := make([]any, s.idx+1)
			arr := make([]any, s.idx+2)
			for k := range tuple {
				tuple[k] = map[string]any{}
				arr[k] = gen.I(k)
			}
			tuple[s.idx] = schema
			arr[s.idx] = val
			arr[s.idx+1] = "extra"
			schema = map[string]any{"type": "array", "items": tuple}
			val = arr
		}
	}
	st, it := gen.JSON(schema), gen.JSON(val)
	// expected name
	var parts []string
	for _, s := range steps {
		if s.kind == "tuple" || s.kind == "beyond" {
			parts = append(parts, strconv.Itoa(s.idx))
		} else {
			parts = append(parts, s.name)
		}
	}
	if missing != "" {
		parts = append(parts, missing)
	}
	path := strings.Join(parts, ".")
	want := []string{root + "." + path}
	if root == "" {
		want = []string{path, "." + path}
	}
	c := lib.Case{Hash: lib.Hash64([]byte(string(st) + "\x00" + string(it) + "\x00" + root)), Nontrivial: true}
	kinds := make([]string, len(steps))
	for i, s := range steps {
		kinds[i] = s.kind
	}
	c.Tags = append(c.Tags, "single-fault", "fault:"+fault, "depth:"+strconv.Itoa(depth), "root:"+root)
	sort.Strings(kinds)
	c.Tags = append(c.Tags, "steps:"+strings.Join(uniq(kinds), "+"))

	// the model must agree that this is invalid (sanity of the construction)
	sch, _ := model.Parse(st)
	ins, _ := model.Parse(it)
	if (&model.Ctx{Root: sch, Formats: strfmt.Default}).Valid(sch, ins) {
		c.Inconclusive = "construction error: planted fault is not a fault for the reference model"
		return c
	}
	carrier := "float64"
	if r.P(0.4) {
		carrier = "json.Number" // integers then travel as Go integers
	}
	c.Tags = append(c.Tags, "carrier:"+carrier)
	var res *validate.Result
	o := sut.Guard(func() sut.Outcome {
		s, _ := sut.Schema(st)
		var v any
		if carrier == "json.Number" {
			v, _ = decodeNumber(it)
		} else {
			v, _ = sut.Value(it)
		}
		res = validate.NewSchemaValidator(s, nil, root, strfmt.Default).Validate(v)
		return sut.FromResult(res)
	})
	sample := map[string]any{"schema": string(st), "instance": string(it), "root": root, "planted": fault, "expected_name": want, "outcome": o, "number_carrier": carrier}
	if o.Panic != "" {
		c.Viol = &lib.Violation{What: "panic: " + o.Panic, Detail: sample}
		return c
	}
	if o.Valid {
		c.Viol = &lib.Violation{What: fmt.Sprintf("planted %s fault at %s not rejected: schema=%s instance=%s", fault, want[0], st, it), Detail: sample}
		return c
	}
	found := false
	var seen []string
	for _, e := range res.Errors {
		if ve, ok := e.(*oaerrors.Validation); ok {
			seen = append(seen, ve.Name)
			for _, wn := range want {
				if ve.Name == wn {
					found = true
				}
			}
		}
	}
	if !found {
		sample["names_seen"] = seen
		c.Viol = &lib.Violation{What: fmt.Sprintf("no field-level error named %q for the planted %s fault (names seen: %v) schema=%s instance=%s", want[0], fault, seen, st, it), Detail: sample}
		return c
	}
	if idx%50000 == 1 {
		c.Sample = sample
	}
	return c
}

func uniq(xs []string) []string {
	var out []string
	for i, x := range xs {
		if i == 0 || x != xs[i-1] {
			out = append(out, x)
		}
	}
	return out
}

func (p *c17) Finish(a *lib.Aggregate) (broken []string) {
	for _, f := range c17Faults {
		if a.Tags["fault:"+f] == 0 {
			broken = append(broken, "fault kind never planted: "+f)
		}
	}
	if a.Nums["field_level_errors_checked"] == 0 {
		broken = append(broken, "no field-level error was inspected")
	}
	return
}
