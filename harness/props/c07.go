package props

import (
	"encoding/json"
	"fmt"
	"sort"
	"strings"

	"github.com/go-openapi/spec"

	"verif/harness/gen"
	"verif/harness/lib"
	"verif/harness/model"
	"verif/harness/sut"
)

// mutatedDoc builds the document of one case of C02/C07: a base document (generated or fixture)
// with 1-3 structural edits; returns the text, the edits and the base name.
func mutatedDoc(idx int, r *lib.Rand, fixtures map[string][]byte) (text []byte, edits []string, base string) {
	var tree map[string]any
	if idx%5 == 2 {
		// a valid generated specification with ONE small edit against the Swagger schema (nothing else is wrong with
		// it, so whether the library notices that one place decides whether the document is accepted)
		g := &gen.SpecGen{R: r, Tag: fmt.Sprintf("s%d", idx%7), NoRefs: idx%2 == 0}
		tree = g.Clean()
		e := gen.SchemaEdit(r, tree)
		if e == "" {
			e = "none"
		}
		return gen.JSON(tree), []string{"schema-edit " + e}, "generated-clean"
	}
	if idx%3 == 0 && len(fixtures) > 0 {
		names := make([]string, 0, len(fixtures))
		for k := range fixtures {
			names = append(names, k)
		}
		sort.Strings(names)
		base = names[r.Intn(len(names))]
		v, _ := model.Parse(fixtures[base])
		tree, _ = v.(map[string]any)
	} else {
		g := &gen.SpecGen{R: r, Tag: fmt.Sprintf("m%d", idx%7)}
		tree = g.Clean()
		base = "generated"
		if r.P(0.4) {
			f := gen.Faults[r.Intn(len(gen.Faults))]
			if r.Bool() {
				// references which do not resolve are where the validators' error paths live
				f = []string{"unresolvable-ref-parameter", "unresolvable-ref-response", "unresolvable-ref-definition", "dup-param-via-ref", "two-body-params-ref"}[r.Intn(5)]
			}
			g.Apply(f)
		}
	}
	if tree == nil {
		return nil, nil, base
	}
	edits = gen.Mutate(r, tree, r.Range(1, 3))
	if r.P(0.2) {
		// one edit of the reference graph / schema identity on top (draws after the structural edits)
		if e := gen.GraphEdit(r, tree); e != "" {
			edits = append(edits, e)
		}
	}
	if idx%11 == 0 {
		if y, err := gen.YAML(tree); err == nil {
			return y, append(edits, "as-yaml"), base
		}
	}
	return gen.JSON(tree), edits, base
}

// C07 — spec validation never panics on a document that loads.
type c07 struct {
	base
	fixtures map[string][]byte
}

func init() {
	lib.Register(&c07{base: base{
		id: "C07", level: "exploration",
		technique: "runtime crash monitor: structurally mutated specifications (delete / retype / rename / transplant / null / dangling and sibling-carrying $ref / odd parameter, property and definition names / parameter location swaps / defaults and examples of random kinds) that the loader accepts are run through SpecValidator.Validate in both continue-on-errors modes in child processes under recover; any panic or process death is a violation, and so is a validation which does not return (per-case watchdog, confirmed by re-running the case alone)",
		rule: "base documents: 2/3 generated valid specifications (sometimes with a rule fault), 1/3 repository fixtures; 1-3 seeded structural edits each; 1 in 11 rendered as YAML; documents the loader rejects are counted and dropped; distinct = FNV-64 of the document text; non-trivial = the document loads and at least one edit was applied",
		assumptions: []string{"sampled input space: held on the mutated documents evaluated", "the loader (loads.Analyzed) decides what 'loads' means"},
		quick: 1200, thorough: 16000,
	}})
}

func (p *c07) Init(w *lib.Worker) (err error) {
	p.fixtures, err = gen.FixtureDocs(model.RepoDir())
	return err
}

func (p *c07) Chunk(string) int { return 20 }

// MaxStack: specification validation recurses a few dozen levels at most; a runaway recursion ends after 32 MB.
func (p *c07) MaxStack() int { return 32 << 20 }

// CaseTimeout: a case is two specification validations (well under 2 s even on a loaded machine); a case still
// running after 60 s is re-run alone, and reported when it does not return there either (bounded progress).
func (p *c07) CaseTimeout(string) int { return 60 }

func (p *c07) Run(w *lib.Worker, idx int, r *lib.Rand) lib.Case {
	text, edits, base := mutatedDoc(idx, r, p.fixtures)
	if text == nil {
		return lib.Case{Inconclusive: "base document does not parse"}
	}
	c := lib.Case{Hash: lib.Hash64(text), Evals: 2, Tags: []string{"base:" + base}}
	for _, e := range edits {
		c.Tags = append(c.Tags, "edit:"+strings.SplitN(e, " ", 2)[0])
	}
	for _, cont := range []bool{false, true} {
		o := sut.ValidateSpec(text, sut.SpecOpts{Continue: cont, Strict: true})
		if !o.Loaded {
			c.Tags = append(c.Tags, "does-not-load")
			c.Evals = 0
			return c
		}
		if knownC07IdPanic(o, text) {
			// recorded finding: a schema with an "id" opens a new resolution scope; the default / example validators
			// compile it against that scope, its local references no longer resolve and the documented panic escapes
			c.Known = []string{"schema-id-rescopes-refs-panic-in-default-example-validation"}
			c.KnownWhat = fmt.Sprintf("continue-on-errors=%v, edits=%v: %s", cont, edits, lib1(o.Panic))
			c.Sample = map[string]any{"document": string(text), "edits": edits, "panic": o.Panic, "stack": trimStack(o.Stack)}
			c.Nontrivial = true
			return c
		}
		if knownC07Panic(o, cont, text) {
			// recorded finding: with continue-on-errors the default / example validators compile schemas whose
			// references were already reported as unresolvable, and the documented invalid-schema panic escapes
			c.Known = []string{"invalid-schema-panic-escapes-default-example-validation"}
			c.KnownWhat = fmt.Sprintf("continue-on-errors=true, edits=%v: %s", edits, lib1(o.Panic))
			c.Sample = map[string]any{"document": string(text), "edits": edits, "panic": o.Panic, "stack": trimStack(o.Stack)}
			c.Nontrivial = true
			return c
		}
		if o.Panic != "" {
			c.Viol = &lib.Violation{
				What:   fmt.Sprintf("panic validating a document that loads (continue-on-errors=%v): %s edits=%v", cont, lib1(o.Panic), edits),
				Detail: map[string]any{"document": string(text), "edits": edits, "base": base, "panic": o.Panic, "stack": trimStack(o.Stack)},
			}
			return c
		}
		c.Tags = append(c.Tags, boolTag("valid", o.Valid))
	}
	c.Nontrivial = len(edits) > 0
	if idx%400 == 0 {
		c.Sample = map[string]any{"document": string(text), "edits": edits, "base": base}
	}
	return c
}

// KnownCrash attributes a process death to the recorded finding composition-cycle-stack-overflow-in-default-example-validation
// by call site and input class: a stack overflow, below the default / example validators, on a document whose
// definitions hold a cycle through composition positions (compiling a validator for such a definition never ends).
func (p *c07) KnownCrash(tier string, seed int64, idx int, stderr string) string {
	// the runaway recursion ends in a stack overflow, or — on a loaded machine, where every level costs a getwd
	// system call — is still running when the watchdog fires (its goroutine dump shows the same frames)
	if !strings.Contains(stderr, "stack overflow") && !(strings.Contains(stderr, "WATCHDOG case=") && strings.Contains(stderr, "validate.newSchemaPropsValidator")) {
		return ""
	}
	if !strings.Contains(stderr, "(*defaultValidator)") && !strings.Contains(stderr, "(*exampleValidator)") {
		return ""
	}
	if p.fixtures == nil {
		p.fixtures, _ = gen.FixtureDocs(model.RepoDir())
	}
	text, _, _ := mutatedDoc(idx, lib.NewRand(seed, "C07", idx), p.fixtures)
	if text == nil || !docHasCompositionCycle(text) {
		return ""
	}
	return "composition-cycle-stack-overflow-in-default-example-validation"
}

// docHasCompositionCycle parses the document (JSON or YAML text) and looks for a cycle of definitions through
// composition positions.
func docHasCompositionCycle(text []byte) bool {
	doc, err := sut.LoadSpec(text)
	if err != nil {
		return false
	}
	raw, err := model.Parse(doc.Raw())
	if err != nil {
		return false
	}
	m, _ := raw.(map[string]any)
	return m != nil && gen.CompositionCycle(m)
}

func (p *c07) Finish(a *lib.Aggregate) (broken []string) {
	if a.Tags["valid:no"] == 0 {
		broken = append(broken, "no loadable mutated document was rejected: mutations too weak")
	}
	if a.Evaluations < 100 {
		broken = append(broken, "too few loadable documents")
	}
	return
}

// knownC07Panic recognises the recorded finding invalid-schema-panic-escapes-default-example-validation by its
// call site and input class: continue-on-errors, the documented invalid-schema panic raised by newSchemaValidator
// below the default / example validators, on a document holding a $ref which cannot be expanded into a schema.
func knownC07Panic(o sut.SpecOutcome, cont bool, text []byte) bool {
	if o.Panic == "" || !cont || !sut.IsDocumentedSchemaPanic(o.Panic) {
		return false
	}
	if !strings.Contains(o.Stack, "(*defaultValidator)") && !strings.Contains(o.Stack, "(*exampleValidator)") {
		return false
	}
	return docHasUnresolvableRef(text)
}

// knownC07IdPanic recognises the recorded finding schema-id-rescopes-refs-panic-in-default-example-validation by call
// site and input class: the documented invalid-schema panic, raised by newSchemaValidator below the default / example
// validators (either mode), on a document which holds a schema object carrying a non-empty string "id" together with a
// default or an example, and a $ref somewhere inside that schema.
func knownC07IdPanic(o sut.SpecOutcome, text []byte) bool {
	if o.Panic == "" || !sut.IsDocumentedSchemaPanic(o.Panic) {
		return false
	}
	if !strings.Contains(o.Stack, "(*defaultValidator)") && !strings.Contains(o.Stack, "(*exampleValidator)") {
		return false
	}
	doc, err := sut.LoadSpec(text)
	if err != nil {
		return false
	}
	raw, err := model.Parse(doc.Raw())
	if err != nil {
		return false
	}
	var hasRef func(v any) bool
	hasRef = func(v any) bool {
		switch x := v.(type) {
		case map[string]any:
			if _, ok := x["$ref"].(string); ok {
				return true
			}
			for _, e := range x {
				if hasRef(e) {
					return true
				}
			}
		case []any:
			for _, e := range x {
				if hasRef(e) {
					return true
				}
			}
		}
		return false
	}
	found := false
	var walk func(v any, key string)
	walk = func(v any, key string) {
		switch x := v.(type) {
		case map[string]any:
			if id, ok := x["id"].(string); ok && id != "" && key != "info" {
				_, d := x["default"]
				_, e := x["example"]
				if (d || e) && hasRef(x) {
					found = true
				}
			}
			for k, e := range x {
				walk(e, k)
			}
		case []any:
			for _, e := range x {
				walk(e, key)
			}
		}
	}
	walk(raw, "")
	return found
}

// docHasUnresolvableRef tells whether the document (JSON or YAML text) holds a $ref which cannot be expanded
// into a schema: it does not resolve inside the document itself (dangling local pointer, or a reference to
// another file / URL), or what it resolves to does not decode as a schema object.
func docHasUnresolvableRef(text []byte) bool {
	doc, err := sut.LoadSpec(text)
	if err != nil {
		return false
	}
	raw, err := model.Parse(doc.Raw())
	if err != nil {
		return false
	}
	c := &model.Ctx{Root: raw}
	found := false
	var walk func(v any)
	walk = func(v any) {
		switch x := v.(type) {
		case map[string]any:
			if r, ok := x["$ref"].(string); ok {
				target, ok := c.Resolve(r)
				if !ok {
					found = true
				} else if b, err := json.Marshal(target); err != nil || json.Unmarshal(b, new(spec.Schema)) != nil {
					found = true
				}
			}
			for _, e := range x {
				walk(e)
			}
		case []any:
			for _, e := range x {
				walk(e)
			}
		}
	}
	walk(raw)
	return found
}
