package props

import (
	"time"
	"context"
	"fmt"
	"reflect"
	"regexp"
	"strings"
	"unicode/utf8"

	"github.com/go-openapi/strfmt"
	"github.com/go-openapi/validate"

	"verif/harness/lib"
	"verif/harness/model"
	"verif/harness/sut"
)

// C14 — the exported value helpers implement their textbook definitions for every input.
type c14 struct{ base }

func init() {
	lib.Register(&c14{base{
		id: "C14", level: "exploration",
		technique: "runtime reference-model monitor: each exported helper is called on generated arguments and its answer (nil / error) is compared online with a textbook definition written independently; every call is repeated (purity) and its slice/map arguments are snapshotted before and compared after",
		rule: "arguments: valid and invalid UTF-8, multi-byte runes and combining marks exactly at the limits, empty / nil / typed-nil slices, maps, pointers, zero and non-zero complex numbers, channels, functions, arrays, time values, pointers to zero structs and types with an IsZero method (Required / ReadOnly), nested []interface{} and map[string]interface{}, every numeric kind on both sides of an enum, case variants incl. non-ASCII, request / response / absent / foreign contexts, known and unknown formats, nil registry; distinct = FNV-64 of helper name + rendered arguments; non-trivial = the argument sits on a boundary (length == limit, size == limit), or is a container, or crosses Go types, or is not plain ASCII",
		assumptions: []string{
			"UniqueItems is fed homogeneous element types, so deep equality and numeric equality across Go types coincide (the cross-type clause is stated for the enum mechanism)",
			"case folding is strings.EqualFold (Unicode simple folding), Go arrays and NaN are outside the stated domain",
			"sampled input space",
		},
		quick: 400000, thorough: 20000000,
	}})
}

func (p *c14) Init(w *lib.Worker) error { return nil }

var c14Strings = []string{
	"", "a", "ab", "abc", "é", "éé", "日本語", "é", "áb", "\xff", "a\xffb", "\xc3", "\xe6\x97", "K", "K", "ß", "SS", "İ", "i", "ǅ", "ǆ",
	"x-1", "foo", "FOO", "Foo", "2020-01-31", "a8098c1a-f86e-11da-bd1a-00112444be1e", "a@b.co", " ", "\x00", "\U0001F600", "\U0001F600\U0001F600",
}

var c14Pieces = []string{"a", "b", "é", "日", "\xff", "\xc3", "\U0001F600", "́", " ", "\n", "0", "K", "K", "ß", "-", "."}

// randString builds a string of 0-9 pieces (valid and invalid UTF-8 mixed).
func randString(r *lib.Rand) string {
	var b strings.Builder
	for i, n := 0, r.Range(0, 9); i < n; i++ {
		b.WriteString(c14Pieces[r.Intn(len(c14Pieces))])
	}
	return b.String()
}

func runeCount(s string) int64 {
	var n int64
	for i := 0; i < len(s); {
		_, w := utf8.DecodeRuneInString(s[i:])
		i += w
		n++
	}
	return n
}

// isZero is the textbook zero-value test, kind by kind.
func isZero(v any) bool {
	rv := reflect.ValueOf(v)
	if !rv.IsValid() {
		return true
	}
	return zeroValue(rv)
}

func zeroValue(rv reflect.Value) bool {
	switch rv.Kind() { //nolint:exhaustive
	case reflect.Bool:
		return !rv.Bool()
	case reflect.Int, reflect.Int8, reflect.Int16, reflect.Int32, reflect.Int64:
		return rv.Int() == 0
	case reflect.Uint, reflect.Uint8, reflect.Uint16, reflect.Uint32, reflect.Uint64, reflect.Uintptr:
		return rv.Uint() == 0
	case reflect.Float32, reflect.Float64:
		return rv.Float() == 0
	case reflect.String:
		return rv.Len() == 0
	case reflect.Complex64, reflect.Complex128:
		return rv.Complex() == 0
	case reflect.Ptr, reflect.Map, reflect.Slice, reflect.Interface, reflect.Chan, reflect.Func, reflect.UnsafePointer:
		return rv.IsNil()
	case reflect.Array:
		for i := 0; i < rv.Len(); i++ {
			if !zeroValue(rv.Index(i)) {
				return false
			}
		}
		return true
	case reflect.Struct:
		for i := 0; i < rv.NumField(); i++ {
			if !zeroValue(rv.Field(i)) {
				return false
			}
		}
		return true
	}
	return false
}

// c14Str is a named string type (kind string), as generated enum models use.
type c14Str string

type c14Struct struct {
	A int
	B string
	C []int
}

// c14IsZeroer claims to be zero whatever it holds: the textbook definition looks at the value, not at the method.
type c14IsZeroer struct{ N int }

func (c14IsZeroer) IsZero() bool { return true }

// c14NeverZero claims never to be zero.
type c14NeverZero struct{ N int }

func (c14NeverZero) IsZero() bool { return false }

var c14Chan = make(chan int)

func c14Func() {}

// zeroishValue draws from the value classes where "zero value" is easy to get wrong: complex numbers, channels,
// functions, arrays, pointers to zero values, time values, types with an IsZero method, typed nils.
func (p *c14) zeroishValue(r *lib.Rand) (any, string) {
	switch r.Intn(24) {
	case 0:
		return complex64(0), "complex64(0)"
	case 1:
		return complex128(0), "complex128(0)"
	case 2:
		return complex(0, 1), "complex128(1i)"
	case 3:
		return (chan int)(nil), "(chan int)(nil)"
	case 4:
		return c14Chan, "chan int (non-nil)"
	case 5:
		return (func())(nil), "(func())(nil)"
	case 6:
		return c14Func, "func (non-nil)"
	case 7:
		return [2]int{}, "[2]int{}"
	case 8:
		return [2]int{0, 1}, "[2]int{0,1}"
	case 9:
		return time.Time{}, "time.Time{}"
	case 10:
		return &time.Time{}, "&time.Time{}"
	case 11:
		return time.Time{}.Local(), "time.Time{}.Local()"
	case 12:
		return time.Unix(0, 0).UTC(), "time.Unix(0,0).UTC()"
	case 13:
		return strfmt.DateTime{}, "strfmt.DateTime{}"
	case 14:
		return &strfmt.DateTime{}, "&strfmt.DateTime{}"
	case 15:
		return c14IsZeroer{N: 1}, "c14IsZeroer{N:1} (IsZero() says true)"
	case 16:
		return c14IsZeroer{}, "c14IsZeroer{}"
	case 17:
		return c14NeverZero{}, "c14NeverZero{} (IsZero() says false)"
	case 18:
		return &c14IsZeroer{}, "&c14IsZeroer{}"
	case 19:
		return (*c14Struct)(nil), "(*c14Struct)(nil)"
	case 20:
		return &c14Struct{}, "&c14Struct{}"
	case 21:
		return strfmt.Date{}, "strfmt.Date{}"
	case 22:
		return uintptr(0), "uintptr(0)"
	default:
		return [0]int{}, "[0]int{}"
	}
}

func (p *c14) anyValue(r *lib.Rand, depth int) any {
	switch r.Intn(24) {
	case 22, 23:
		return c14Str(c14Strings[r.Intn(len(c14Strings))])
	case 0:
		return nil
	case 1:
		return r.Bool()
	case 2:
		return r.Range(-3, 70)
	case 3:
		return int8(r.Range(-3, 100))
	case 4:
		return int64(r.Range(-3, 300))
	case 5:
		return uint8(r.Range(0, 200))
	case 6:
		return uint64(r.Range(0, 5))
	case 7:
		return float32(r.Range(-2, 5))
	case 8:
		return float64(r.Range(-2, 5))
	case 9:
		return []float64{0, 0.5, 1.5, 2.5, -0.0, 65, 300}[r.Intn(7)]
	case 10, 11:
		return c14Strings[r.Intn(len(c14Strings))]
	case 12:
		if depth <= 0 {
			return []interface{}{}
		}
		n := r.Range(0, 3)
		out := make([]interface{}, n)
		for i := range out {
			out[i] = p.anyValue(r, depth-1)
		}
		return out
	case 13:
		if depth <= 0 {
			return map[string]interface{}{}
		}
		out := map[string]interface{}{}
		for i, n := 0, r.Range(0, 2); i < n; i++ {
			out[c14Strings[r.Intn(6)]] = p.anyValue(r, depth-1)
		}
		return out
	case 14:
		return []string(nil)
	case 15:
		return []int{}
	case 16:
		return (*int)(nil)
	case 17:
		x := r.Range(0, 2)
		return &x
	case 18:
		return c14Struct{A: r.Range(0, 1)}
	case 19:
		return c14Struct{}
	case 20:
		return uint32(r.Range(0, 70))
	default:
		return map[string]interface{}(nil)
	}
}

func nilErr(e any) bool { return e == nil || reflect.ValueOf(e).IsNil() }

type foreignKey string

func (p *c14) Run(w *lib.Worker, idx int, r *lib.Rand) lib.Case {
	helper := []string{"MinLength", "MaxLength", "Pattern", "UniqueItems", "Enum", "EnumCase", "MinItems", "MaxItems", "Required", "RequiredString", "RequiredNumber", "ReadOnly", "FormatOf"}[r.Intn(13)]
	var call func() any
	var want bool // true: nil expected
	var render string
	var snapArgs []any
	nontrivial := false
	known := ""
	switch helper {
	case "MinLength", "MaxLength":
		s := c14Strings[r.Intn(len(c14Strings))]
		if r.P(0.3) {
			s += c14Strings[r.Intn(len(c14Strings))]
		}
		if r.P(0.5) {
			s = randString(r)
		}
		n := runeCount(s)
		lim := n + int64(r.Range(-1, 1))
		if r.P(0.2) {
			lim = int64(r.Range(-1, 8))
		}
		render = fmt.Sprintf("%s(%q, %d)", helper, s, lim)
		nontrivial = lim == n || int(n) != len(s)
		if helper == "MinLength" {
			want = n >= lim
			call = func() any { return validate.MinLength("p", "body", s, lim) }
		} else {
			want = n <= lim
			call = func() any { return validate.MaxLength("p", "body", s, lim) }
		}
	case "Pattern":
		pats := []string{"^a", "b$", "^.$", "é", "(?i)^foo$", "^[a-c]+$", "(", "[a", "a{2,1}", "", "^$", "\\d+", "^\\p{L}+$", "\xff",
			"^a ", " ^a", "b$\n", "^.$ ", "\tfoo", "foo", "foo ", " "}
		pat := pats[r.Intn(len(pats))]
		s := c14Strings[r.Intn(len(c14Strings))]
		if r.P(0.5) {
			s = randString(r)
		}
		render = fmt.Sprintf("Pattern(%q, %q)", s, pat)
		re, err := regexp.Compile(pat)
		want = err == nil && re.MatchString(s)
		nontrivial = err != nil || int(runeCount(s)) != len(s)
		call = func() any { return validate.Pattern("p", "body", s, pat) }
	case "UniqueItems":
		var data any
		// long slices: sizes around the powers of two where an implementation may switch algorithm; elements in
		// no particular order; a duplicate, when there is one, sits anywhere (often first/last)
		long := func() (n int, dupA, dupB int) {
			n = []int{8, 15, 16, 17, 31, 32, 33, 64, 65, 100}[r.Intn(10)]
			dupA, dupB = -1, -1
			if r.P(0.5) {
				dupA, dupB = r.Intn(n), r.Intn(n)
				if r.P(0.4) {
					dupA, dupB = 0, n-1
				}
			}
			return
		}
		switch r.Intn(15) {
		case 14:
			// JSON-like arrays of mixed kinds: scalars first, containers later (and the other way round)
			pool := []interface{}{"plain", "plain", 1.0, true, nil, map[string]interface{}{"fancy": true}, map[string]interface{}{"fancy": true},
				[]interface{}{1.0}, []interface{}{1.0}, map[string]interface{}{}, []interface{}{}, "other"}
			n := r.Range(2, 5)
			xs := make([]interface{}, n)
			for i := range xs {
				xs[i] = pool[r.Intn(len(pool))]
			}
			if r.P(0.5) {
				xs[0] = pool[r.Intn(5)] // a scalar (or null) in front
			}
			data = xs
		case 11:
			// pointer items: deep value equality looks through pointers (distinct pointers to equal values are duplicates)
			a, b, c3 := c14Strings[r.Intn(4)], c14Strings[r.Intn(4)], c14Strings[r.Intn(4)]
			if r.Bool() {
				data = []*string{&a, &b, &c3}
			} else {
				x, y := r.Intn(3), r.Intn(3)
				data = []*int{&x, &y}
			}
		case 12:
			// struct and array items which hold pointers or box slices / maps in an interface
			x, y := r.Intn(2), r.Intn(2)
			switch r.Intn(4) {
			case 0:
				data = []struct{ P *int }{{&x}, {&y}}
			case 1:
				data = []struct{ V interface{} }{{[]int{x}}, {[]int{y}}, {map[string]int{"k": x}}}
			case 2:
				data = [][1]interface{}{{[]string{c14Strings[x]}}, {[]string{c14Strings[y]}}}
			default:
				data = []interface{}{&x, &y, struct{ V interface{} }{[]int{x}}, struct{ V interface{} }{[]int{y}}}
			}
		case 13:
			// numbers of different Go types at the top level: numerically equal ones are duplicates
			pool := []interface{}{1, 1.0, int8(1), uint(2), 2.0, float32(2), int64(3), 2.5, uint16(1)}
			n := r.Range(2, 4)
			xs := make([]interface{}, n)
			for i := range xs {
				xs[i] = pool[r.Intn(len(pool))]
			}
			data = xs
		case 8:
			n, a, b := long()
			xs := make([]string, n)
			for i := range xs {
				xs[i] = fmt.Sprintf("item-%03d", (i*37+11)%n) // a permutation when n is coprime to 37, near enough otherwise
			}
			if a >= 0 {
				xs[a] = xs[b]
			}
			data = xs
		case 9:
			n, a, b := long()
			xs := make([]int, n)
			for i := range xs {
				xs[i] = (i*53 + 7) % (2 * n)
			}
			if a >= 0 {
				xs[a] = xs[b]
			}
			data = xs
		case 10:
			n, a, b := long()
			xs := make([]interface{}, n)
			for i := range xs {
				xs[i] = float64((i*29+3)%(2*n)) + 0.5
			}
			if a >= 0 {
				xs[a] = xs[b]
			}
			data = xs
		case 0:
			data = []string{c14Strings[r.Intn(8)], c14Strings[r.Intn(8)], c14Strings[r.Intn(8)]}
		case 1:
			data = []int{r.Intn(3), r.Intn(3), r.Intn(3)}
		case 2:
			data = []float64{float64(r.Intn(3)), float64(r.Intn(3)) + 0.5}
		case 3:
			// homogeneous containers
			data = []interface{}{[]interface{}{float64(r.Intn(2))}, []interface{}{float64(r.Intn(2))}, []interface{}{}}
		case 4:
			data = []interface{}{map[string]interface{}{"a": float64(r.Intn(2))}, map[string]interface{}{"a": float64(r.Intn(2))}}
		case 5:
			data = []interface{}{}
		case 6:
			data = p.anyValue(r, 0) // mostly non-slices
			if rv := reflect.ValueOf(data); rv.IsValid() && rv.Kind() == reflect.Slice {
				data = 7
			}
		default:
			data = []interface{}{"a", "a"}[:r.Range(0, 2)]
		}
		render = fmt.Sprintf("UniqueItems(%s)", renderDeep(data))
		want = true
		deepOnly := true // the verdict of plain reflect.DeepEqual, without numeric equality across Go types
		if rv := reflect.ValueOf(data); rv.IsValid() && rv.Kind() == reflect.Slice {
			nontrivial = true
			for i := 0; i < rv.Len(); i++ {
				for j := 0; j < i; j++ {
					if model.GoEqual(rv.Index(i).Interface(), rv.Index(j).Interface()) {
						want = false
					}
					if reflect.DeepEqual(rv.Index(i).Interface(), rv.Index(j).Interface()) {
						deepOnly = false
					}
				}
			}
		}
		if !want && deepOnly {
			known = "uniqueitems-no-cross-type-numeric-equality"
		}
		snapArgs = []any{data}
		call = func() any { return validate.UniqueItems("p", "body", data) }
	case "Enum", "EnumCase":
		data := p.anyValue(r, 2)
		var enum any
		n := r.Range(0, 4)
		list := make([]interface{}, n)
		for i := range list {
			list[i] = p.anyValue(r, 1)
		}
		if n > 0 && r.P(0.4) {
			list[r.Intn(n)] = data
		}
		enum = list
		switch r.Intn(10) {
		case 8:
			enum = []c14Str{"foo", "FOO", "é"}
		case 9:
			enum = []interface{}{c14Str("Foo"), "abc", c14Str("ß")}
		case 0:
			enum = []string{"foo", "é", "K"}
		case 1:
			enum = []int{1, 2, 65}
		case 2:
			enum = []float64{1, 2.5}
		case 3:
			enum = 42 // not a slice: no constraint
		}
		caseSensitive := true
		if helper == "EnumCase" {
			caseSensitive = r.Bool()
		}
		render = fmt.Sprintf("%s(%#v, %#v, caseSensitive=%v)", helper, data, enum, caseSensitive)
		ev := reflect.ValueOf(enum)
		want = true
		conv := false // the implementation's conversion formula (recorded finding enum-convert)
		if ev.IsValid() && ev.Kind() == reflect.Slice {
			want = false
			for i := 0; i < ev.Len(); i++ {
				e := ev.Index(i).Interface()
				if model.GoEqual(e, data) {
					want = true
				}
				if !caseSensitive {
					ds, dok := stringKind(data)
					es, eok := stringKind(e)
					if dok && eok && strings.EqualFold(ds, es) {
						want = true
					}
				}
				if data != nil && e != nil {
					dv := reflect.ValueOf(data)
					if dv.Type().ConvertibleTo(reflect.TypeOf(e)) && reflect.DeepEqual(dv.Convert(reflect.TypeOf(e)).Interface(), e) {
						conv = true
					}
				}
			}
			nontrivial = true
		}
		if conv && !want {
			known = "enum-convert"
		}
		snapArgs = []any{data, enum}
		if helper == "Enum" {
			call = func() any { return validate.Enum("p", "body", data, enum) }
		} else {
			call = func() any { return validate.EnumCase("p", "body", data, enum, caseSensitive) }
		}
	case "MinItems", "MaxItems":
		size, lim := int64(r.Range(-1, 5)), int64(r.Range(-1, 5))
		render = fmt.Sprintf("%s(%d, %d)", helper, size, lim)
		nontrivial = size == lim
		if helper == "MinItems" {
			want = size >= lim
			call = func() any { return validate.MinItems("p", "body", size, lim) }
		} else {
			want = size <= lim
			call = func() any { return validate.MaxItems("p", "body", size, lim) }
		}
	case "Required":
		data := p.anyValue(r, 1)
		render = fmt.Sprintf("Required(%#v)", data)
		if r.P(0.3) {
			var txt string
			data, txt = p.zeroishValue(r)
			render = "Required(" + txt + ")"
		}
		want = !isZero(data)
		nontrivial = hasContainer(data) || data == nil
		snapArgs = []any{data}
		call = func() any { return validate.Required("p", "body", data) }
	case "RequiredString":
		s := c14Strings[r.Intn(len(c14Strings))]
		render = fmt.Sprintf("RequiredString(%q)", s)
		want = s != ""
		nontrivial = len(s) <= 1
		call = func() any { return validate.RequiredString("p", "body", s) }
	case "RequiredNumber":
		f := []float64{0, -0.0, 1, -1, 0.5, 1e-320, 5}[r.Intn(7)]
		render = fmt.Sprintf("RequiredNumber(%v)", f)
		want = f != 0
		nontrivial = f == 0 || f == 1e-320
		call = func() any { return validate.RequiredNumber("p", "body", f) }
	case "ReadOnly":
		data := p.anyValue(r, 1)
		ctxKind := []string{"request", "response", "none", "foreign", "request-over-response", "response-over-request"}[r.Intn(6)]
		var ctx context.Context
		switch ctxKind {
		case "request":
			ctx = validate.WithOperationRequest(context.Background())
		case "response":
			ctx = validate.WithOperationResponse(context.Background())
		case "none":
			ctx = context.Background()
		case "foreign":
			ctx = context.WithValue(context.Background(), foreignKey("operationTypeKey"), "request")
		case "request-over-response":
			ctx = validate.WithOperationRequest(validate.WithOperationResponse(context.Background()))
		default:
			ctx = validate.WithOperationResponse(validate.WithOperationRequest(context.Background()))
		}
		render = fmt.Sprintf("ReadOnly(ctx=%s, %#v)", ctxKind, data)
		if r.P(0.3) {
			var txt string
			data, txt = p.zeroishValue(r)
			render = fmt.Sprintf("ReadOnly(ctx=%s, %s)", ctxKind, txt)
		}
		isReq := ctxKind == "request" || ctxKind == "request-over-response"
		want = !isReq || isZero(data)
		nontrivial = true
		snapArgs = []any{data}
		call = func() any { return validate.ReadOnly(ctx, "p", "body", data) }
	default: // FormatOf
		formats := []string{"date", "uuid", "email", "date-time", "ipv4", "hostname", "nope", "", "Date", "int32", "password", "byte", "x-even", "x-caps", "hexcolor"}
		f := formats[r.Intn(len(formats))]
		s := c14Strings[r.Intn(len(c14Strings))]
		// nil registry (the library falls back to strfmt.Default), strfmt.Default itself, or a caller-supplied
		// registry which disagrees with it: "follows the registry" means the one handed in
		var reg, judge strfmt.Registry = nil, strfmt.Default
		regName := "nil"
		switch r.Intn(3) {
		case 1:
			reg, regName = strfmt.Default, "strfmt.Default"
		case 2:
			reg, judge, regName = altRegistry(), altRegistry(), "alternative"
		}
		render = fmt.Sprintf("FormatOf(%q, %q, registry %s)", f, s, regName)
		want = judge.ContainsName(f) && judge.Validates(f, s)
		nontrivial = !judge.ContainsName(f) || reg != strfmt.Default
		call = func() any { return validate.FormatOf("p", "body", f, s, reg) }
	}

	c := lib.Case{Hash: lib.Hash64([]byte(render)), Nontrivial: nontrivial, Evals: 2, Tags: []string{"helper:" + helper, boolTag("expected-nil", want)}}
	before := fmt.Sprintf("%#v", snapArgs)
	var got1, got2 bool
	var msg string
	o := sut.Guard(func() sut.Outcome {
		e1 := call()
		e2 := call()
		got1, got2 = nilErr(e1), nilErr(e2)
		if !got1 {
			msg = fmt.Sprint(e1)
		}
		return sut.Outcome{Valid: true}
	})
	sample := map[string]any{"call": render, "textbook_says_nil": want, "returned_nil": got1, "message": msg}
	if idx%80000 == 0 {
		c.Sample = sample
	}
	if o.Panic != "" {
		c.Viol = &lib.Violation{What: "panic in " + render + ": " + o.Panic, Detail: sample}
		return c
	}
	if got1 != got2 {
		c.Viol = &lib.Violation{What: "same arguments, different answers: " + render, Detail: sample}
		return c
	}
	if after := fmt.Sprintf("%#v", snapArgs); after != before {
		c.Viol = &lib.Violation{What: "helper modified its arguments: " + render + " now " + after, Detail: sample}
		return c
	}
	if got1 == want {
		return c
	}
	if known != "" && got1 {
		c.Known = []string{known}
		c.KnownWhat = fmt.Sprintf("%s returns nil, textbook says error", render)
		c.Sample = sample
		return c
	}
	c.Viol = &lib.Violation{What: fmt.Sprintf("%s: returned nil=%v, textbook definition says nil=%v (%s)", render, got1, want, msg), Detail: sample}
	return c
}

func (p *c14) Finish(a *lib.Aggregate) (broken []string) {
	for _, h := range []string{"MinLength", "MaxLength", "Pattern", "UniqueItems", "Enum", "EnumCase", "MinItems", "MaxItems", "Required", "RequiredString", "RequiredNumber", "ReadOnly", "FormatOf"} {
		if a.Tags["helper:"+h] == 0 {
			broken = append(broken, "helper never called: "+h)
		}
	}
	return
}

// stringKind returns the text of any value whose kind is string (named string types included).
func stringKind(v any) (string, bool) {
	rv := reflect.ValueOf(v)
	if rv.IsValid() && rv.Kind() == reflect.String {
		return rv.String(), true
	}
	return "", false
}

// renderDeep renders a value with pointers followed (two pointers to equal values render alike).
func renderDeep(v any) string {
	var f func(rv reflect.Value) string
	f = func(rv reflect.Value) string {
		if !rv.IsValid() {
			return "nil"
		}
		switch rv.Kind() {
		case reflect.Ptr:
			if rv.IsNil() {
				return "nil"
			}
			return "&" + f(rv.Elem())
		case reflect.Interface:
			if rv.IsNil() {
				return "nil"
			}
			return f(rv.Elem())
		case reflect.Slice, reflect.Array:
			parts := make([]string, rv.Len())
			for i := range parts {
				parts[i] = f(rv.Index(i))
			}
			return rv.Type().String() + "{" + strings.Join(parts, ", ") + "}"
		case reflect.Struct:
			parts := make([]string, rv.NumField())
			for i := range parts {
				parts[i] = rv.Type().Field(i).Name + ":" + f(rv.Field(i))
			}
			return "{" + strings.Join(parts, ", ") + "}"
		case reflect.String, reflect.Bool, reflect.Map:
			return fmt.Sprintf("%#v", rv.Interface())
		default:
			return fmt.Sprintf("%s(%v)", rv.Type(), rv.Interface())
		}
	}
	return f(reflect.ValueOf(v))
}
