package props

import (
	"fmt"
	"strings"

	"verif/harness/gen"
	"verif/harness/lib"
	"verif/harness/sut"
)

// C03 — spec validation enforces exactly the documented extra rules.
type c03 struct {
	base
	session *sut.SpecSession
}

func init() {
	lib.Register(&c03{base: base{
		id: "C03", level: "exploration",
		technique: "runtime generator-as-oracle monitor: specifications valid by construction must validate without error and the same specification with exactly one rule-breaking edit must produce at least one error, in all four option configurations (continue-on-errors x strict path uniqueness), both with a fresh SpecValidator and with one validator object per configuration that is reused for every document of the worker (its outcome must equal the fresh one); one third of the documents contain no $ref at all",
		rule:      "documents come from a seeded grammar (paths with 0-2 placeholders incl. two per segment, 1-2 operations per path, parameters of every location inline and via #/parameters, responses inline and via #/responses with headers and examples, definitions with allOf inheritance, $ref, additionalProperties, nested arrays); one case = one clean document or one document with one of 29 single faults, validated under 4 configurations; distinct = FNV-64 of the document text; non-trivial = a fault was applied, or the clean document has >=2 operations or inheritance",
		assumptions: []string{
			"the generator is the oracle: a clean document breaks no documented rule and a faulted one breaks exactly the named rule (message classes are recorded as evidence, not matched)",
			"overlapping paths are an error only with strict path uniqueness; with it off the faulted document must be clean",
			"sampled input space",
		},
		quick: 480, thorough: 6000,
	}})
}

func (p *c03) Init(w *lib.Worker) error { return nil }

func (p *c03) Chunk(tier string) int { return 15 }

var specConfigs = []sut.SpecOpts{{Continue: false, Strict: true}, {Continue: true, Strict: true}, {Continue: false, Strict: false}, {Continue: true, Strict: false}}

func (p *c03) Run(w *lib.Worker, idx int, r *lib.Rand) lib.Case {
	if p.session == nil {
		p.session = sut.NewSpecSession()
	}
	g := &gen.SpecGen{R: r, Tag: fmt.Sprintf("x%d", idx%4), NoRefs: idx%3 == 1}
	doc := g.Clean()
	// two cases out of five carry a legal enrichment (shapes which sit next to a rule without breaking it)
	enrich := ""
	if idx%5 == 1 || idx%5 == 3 {
		k := gen.Enrichments[(idx/5*2+idx%5/2)%len(gen.Enrichments)]
		if g.Enrich(k) {
			enrich = k
		}
	}
	fault := ""
	strictOnly := false
	if idx%4 != 0 {
		f := gen.Faults[(idx/4*3+idx%4-1)%len(gen.Faults)]
		if ok, so := g.Apply(f); ok {
			fault, strictOnly = f, so
		}
	}
	text := gen.JSON(doc)
	c := lib.Case{Hash: lib.Hash64(text), Evals: len(specConfigs)}
	c.Nontrivial = fault != "" || len(g.Ops()) >= 2 || strings.Contains(string(text), "allOf")
	if fault != "" {
		c.Tags = append(c.Tags, "fault:"+fault)
	} else {
		c.Tags = append(c.Tags, "clean")
	}
	if enrich != "" {
		c.Tags = append(c.Tags, "enrichment:"+enrich)
	}
	for _, cfg := range specConfigs {
		cfg.SkipSchemata = idx%3 == 0 // whether schemata are recorded must not matter to any rule
		o := sut.ValidateSpec(text, cfg)
		sample := map[string]any{"document": string(text), "fault": fault, "enrichment": enrich, "config": fmt.Sprintf("%+v", cfg), "outcome": o}
		if !o.Loaded {
			c.Inconclusive = "generated document does not load: " + o.LoadErr
			c.Sample = sample
			return c
		}
		if knownC07Panic(o, cfg.Continue, text) {
			c.Tags = append(c.Tags, "skipped:known-C07-panic") // recorded under C07; not a matter of this property
			return c
		}
		if o.Panic != "" {
			c.Viol = &lib.Violation{What: "panic validating a generated specification: " + o.Panic, Detail: sample}
			return c
		}
		expectErr := fault != "" && (!strictOnly || cfg.Strict)
		if expectErr && o.Valid && c03KnownMissing[fault] != "" {
			// recorded finding: this rule is not enforced at this place
			c.Known = []string{c03KnownMissing[fault]}
			c.KnownWhat = fmt.Sprintf("fault %s, %+v: no error reported", fault, cfg)
			c.Sample = sample
			continue
		}
		if expectErr && o.Valid {
			c.Viol = &lib.Violation{What: fmt.Sprintf("rule broken (%s) but no error reported with %+v: %s", fault, cfg, text), Detail: sample}
			return c
		}
		if !expectErr && !o.Valid && enrich == "literal-X-segment" && cfg.Strict && onlyLiteralXOverlap(o.Errors, "/lx"+g.Tag) {
			// recorded finding: the placeholder is replaced by the literal "X" before paths are compared
			c.Known = []string{"placeholder-stripped-to-literal-X"}
			c.KnownWhat = fmt.Sprintf("%+v: %v", cfg, o.Errors)
			c.Sample = sample
			continue
		}
		if !expectErr && !o.Valid {
			c.Viol = &lib.Violation{What: fmt.Sprintf("every documented rule holds (fault=%q, %+v) but errors are reported: %v doc=%s", fault, cfg, o.Errors, text), Detail: sample}
			return c
		}
		// the same document through a validator object which has validated other documents before
		if !cfg.Strict {
			continue // reused validators for the two strict configurations only (cost)
		}
		_ = p.session.Validate(gen.JSON(gen.TwinOf(lib.NewRand(int64(idx), "C03-twin", idx), doc)), cfg) // same names, other content, same validator object
		ro := p.session.Validate(text, cfg)
		c.Evals++
		if ro.Panic != "" {
			c.Viol = &lib.Violation{What: "panic in a reused SpecValidator: " + ro.Panic, Detail: sample}
			return c
		}
		if ro.Key() != o.Key() {
			sample["reused_validator_outcome"] = ro
			c.Viol = &lib.Violation{What: fmt.Sprintf("a SpecValidator which validated other documents before gives another outcome than a fresh one (fault=%q, %+v): fresh errors=%v reused errors=%v doc=%s", fault, cfg, o.Errors, ro.Errors, text), Detail: sample}
			return c
		}
		c.Tags = append(c.Tags, boolTag("no-refs-document", g.NoRefs))
		if idx%100 == 0 && cfg.Continue && cfg.Strict {
			c.Sample = sample
		}
	}
	return c
}

// faults which a recorded finding explains when they go unreported
var c03KnownMissing = map[string]string{
	"array-no-items-referenced-response-typelist": "array-items-rule-skips-referenced-responses",
	"two-body-params-go-name-collision":           "go-name-collision-drops-parameter",
	"array-empty-nested-items-header":             "array-items-rule-skips-nested-header-items",
	"dup-param-path-item-level":                   "path-item-parameters-not-checked-for-uniqueness",
}

// onlyLiteralXOverlap: every error is the overlap message between <base>/{id} and <base>/X.
func onlyLiteralXOverlap(errs []string, base string) bool {
	if len(errs) == 0 {
		return false
	}
	for _, e := range errs {
		if !(strings.Contains(e, "overlaps with") && strings.Contains(e, base+"/X") && strings.Contains(e, base+"/{id}")) {
			return false
		}
	}
	return true
}

func msgClass(m string) string {
	if len(m) > 40 {
		m = m[:40]
	}
	return strings.Map(func(r rune) rune {
		if r >= '0' && r <= '9' {
			return -1
		}
		return r
	}, m)
}

func (p *c03) Finish(a *lib.Aggregate) (broken []string) {
	missing := 0
	for _, f := range gen.Faults {
		if a.Tags["fault:"+f] == 0 {
			missing++
		}
	}
	if missing > 3 {
		broken = append(broken, fmt.Sprintf("%d fault kinds never applied", missing))
	}
	if a.Tags["clean"] == 0 {
		broken = append(broken, "no clean document validated")
	}
	return
}
