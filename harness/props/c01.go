package props

import (
	"bufio"
	"encoding/json"
	"flag"
	"fmt"
	"math/bits"
	"os"
	"sort"
	"strings"

	"github.com/go-openapi/strfmt"

	"verif/harness/gen"
	"verif/harness/lib"
	"verif/harness/model"
	"verif/harness/sut"
)

// C01 — schema validation verdicts agree with JSON Schema draft 4.
type c01 struct{ base }

func init() {
	lib.Register(&c01{base{
		id: "C01", level: "exploration",
		technique: "runtime reference-model monitor: every generated (schema, instance) pair is run through AgainstSchema and NewSchemaValidator and the verdict is compared online with an independent draft-4 evaluator over exact rationals",
		rule: "pairs come from a seeded draft-4 grammar (depth<=4, tuples, null, $ref into definitions, all composition keywords, patternProperties+properties+additionalProperties on one object, dependencies, formats beside a type) with instances half derived from the schema at constraint boundaries and half free JSON; distinct = FNV-64 of canonical schema+instance text; non-trivial = the model evaluated >=2 different keyword groups on the pair, or the pair has a null instance below the root, a tuple, or a $ref",
		assumptions: []string{
			"the draft-4 reference model (harness/model/draft4.go) is correct: it is re-checked against the ~300 labelled instances of fixtures/jsonschema_suite at the start of every worker process",
			"Go regexp and strfmt.Default decide pattern and format predicates for both sides (as the property words it)",
			"sampled input space: held on the cases evaluated, not for all inputs",
		},
		quick: 200000, thorough: 6000000,
	}})
}

func (p *c01) Init(w *lib.Worker) error { return initModel() }

// genPair builds the pair of one case; shared with C06/C12/C17.
func genPair(r *lib.Rand, o gen.SchemaOpts) (g *gen.SchemaGen, doc map[string]any, inst any) {
	g = &gen.SchemaGen{R: r, O: o}
	doc = g.Document()
	if r.P(0.5) {
		inst = g.Instance(doc, doc, 0, 0.25)
	} else if r.P(0.5) {
		inst = g.Instance(doc, doc, 0, 0.0)
	} else {
		inst = g.FreeValue(3)
	}
	return
}

// explain searches the smallest set of recorded deviations (emulation switches) under which the
// model reproduces the implementation's verdict; nil when no subset does.
func explain(schema, inst any, implValid bool, formats strfmt.Registry) []string {
	n := len(model.EmuNames)
	masks := make([]int, 0, 1<<n)
	for m := 1; m < 1<<n; m++ {
		masks = append(masks, m)
	}
	sort.Slice(masks, func(i, j int) bool {
		if a, b := bits.OnesCount(uint(masks[i])), bits.OnesCount(uint(masks[j])); a != b {
			return a < b
		}
		return masks[i] < masks[j]
	})
	for _, m := range masks {
		c := &model.Ctx{Root: schema, Formats: formats, Emu: model.EmuFromMask(m)}
		if c.Valid(schema, inst) == implValid && !c.Unresolved {
			// every switch of the subset must have changed a decision, otherwise a smaller subset matched earlier
			var keys []string
			for i, name := range model.EmuNames {
				if m&(1<<i) != 0 {
					if !c.Fired[name] {
						keys = nil
						break
					}
					keys = append(keys, name)
				}
			}
			if keys != nil {
				return keys
			}
		}
	}
	return nil
}

func (p *c01) Run(w *lib.Worker, idx int, r *lib.Rand) lib.Case {
	g, doc, instRaw := genPair(r, gen.SchemaOpts{MaxDepth: 4, Refs: true, FormatAnyType: true, SpecialNames: true, EmptyNames: true})
	// three cases out of ten run with a caller-supplied registry which disagrees with strfmt.Default
	formats, regName := strfmt.Registry(strfmt.Default), "strfmt.Default"
	if g.Features["format"] && r.P(0.6) || r.P(0.1) {
		formats, regName = altRegistry(), "alternative"
		renameFormats(r, doc)
	}
	swaggerish := 0
	if idx%40 == 23 {
		// directed shape: ONE format leaf below one or two nesting positions (every keyword which builds child
		// validators), judged with the caller-supplied registry: a child built with another registry than the one
		// handed in gives another verdict for most (format, string) combinations below
		doc, instRaw = formatLeafPair(r)
		formats, regName = altRegistry(), "alternative"
	}
	if idx%40 == 7 {
		// directed shape: closed objects under a composition, Swagger-flavoured instance members
		doc, instRaw = closedCompositionPair(r)
		swaggerish = 1
	} else if r.P(0.06) {
		swaggerish = injectSwaggerish(r, instRaw, 0)
	}
	st, it := gen.JSON(doc), gen.JSON(instRaw)
	schema, err1 := model.Parse(st)
	inst, err2 := model.Parse(it)
	if err1 != nil || err2 != nil {
		return lib.Case{Inconclusive: "generated text does not parse"}
	}
	mc := &model.Ctx{Root: schema, Formats: formats, Touched: map[string]int{}}
	want := mc.Valid(schema, inst)
	if mc.Unresolved {
		return lib.Case{Inconclusive: "model could not resolve a reference the generator produced"}
	}
	one := sut.Against(st, it, formats)
	obj := sut.WithValidator(st, it, "", formats)

	c := lib.Case{Hash: lib.Hash64(append(append([]byte{}, st...), it...)), Evals: 2}
	groups := make([]string, 0, len(mc.Touched))
	for k := range mc.Touched {
		groups = append(groups, k)
	}
	sort.Strings(groups)
	c.Nontrivial = len(groups) >= 2 || strings.Contains(string(it), "null") && len(it) > 4
	for _, k := range groups {
		c.Tags = append(c.Tags, "kw:"+k)
	}
	for i := range groups {
		for j := i + 1; j < len(groups); j++ {
			c.Tags = append(c.Tags, "pair:"+groups[i]+"+"+groups[j])
		}
	}
	for f := range g.Features {
		c.Tags = append(c.Tags, "feat:"+f)
	}
	c.Tags = append(c.Tags, boolTag("model-valid", want), "registry:"+regName)
	if regName == "alternative" && mc.Touched["format"] > 0 {
		c.Tags = append(c.Tags, "format-judged-by-alternative-registry")
	}
	if swaggerish > 0 {
		c.Tags = append(c.Tags, "instance-with-swagger-flavoured-members")
	}
	sample := map[string]any{"registry": regName, "schema": string(st), "instance": string(it), "draft4": want, "AgainstSchema": one, "validator": obj}
	if idx%50000 == 0 {
		c.Sample = sample
	}

	if isSpecMarshalPanic(one.Panic, st) && isSpecMarshalPanic(obj.Panic, st) {
		c.Known = []string{"spec-marshal-unescaped-member-name"}
		c.KnownWhat = fmt.Sprintf("schema=%s panics: %s", st, lib1(one.Panic))
		c.Sample = sample
		return c
	}
	if one.Panic != "" || obj.Panic != "" {
		c.Viol = &lib.Violation{What: "panic on a schema whose references resolve: " + one.Panic + obj.Panic, Detail: sample}
		return c
	}
	if one.Valid != obj.Valid {
		c.Viol = &lib.Violation{What: "AgainstSchema and a validator object built from the same schema disagree", Detail: sample}
		return c
	}
	if one.Valid == want {
		return c
	}
	if keys := explain(schema, inst, one.Valid, formats); keys != nil {
		c.Known = keys
		c.KnownWhat = fmt.Sprintf("schema=%s instance=%s draft4=%v impl=%v", st, it, want, one.Valid)
		c.Sample = sample
		c.Tags = append(c.Tags, "explained-by:"+strings.Join(keys, "+"))
		return c
	}
	c.Viol = &lib.Violation{What: fmt.Sprintf("verdict differs from draft 4: draft4=%v impl=%v schema=%s instance=%s", want, one.Valid, st, it), Detail: sample}
	return c
}

func (p *c01) Finish(a *lib.Aggregate) (broken []string) {
	for _, k := range []string{"kw:type", "kw:enum", "kw:numeric", "kw:string", "kw:array", "kw:items", "kw:tuple", "kw:additionalItems", "kw:properties", "kw:patternProperties", "kw:additionalProperties", "kw:required", "kw:dependencies", "kw:allOf", "kw:anyOf", "kw:oneOf", "kw:not", "kw:$ref", "kw:format"} {
		if a.Tags[k] == 0 {
			broken = append(broken, "keyword group never evaluated: "+k)
		}
	}
	if a.Tags["format-judged-by-alternative-registry"] == 0 {
		broken = append(broken, "no format was ever judged by the caller-supplied alternative registry")
	}
	if a.Tags["model-valid:yes"] == 0 || a.Tags["model-valid:no"] == 0 {
		broken = append(broken, "verdict split is degenerate")
	}
	return
}

// isSpecMarshalPanic recognises the recorded defect of the pinned go-openapi/spec dependency:
// OrderSchemaItems.MarshalJSON writes member names unescaped, so expanding a schema which has a
// $ref and a properties/patternProperties member name containing a backslash or a quote fails.
func isSpecMarshalPanic(p string, schemaText []byte) bool {
	return sut.IsDocumentedSchemaPanic(p) && strings.Contains(p, "error calling MarshalJSON") &&
		(strings.Contains(p, "in string escape code") || strings.Contains(p, "invalid character")) &&
		(strings.Contains(string(schemaText), `\\`) || strings.Contains(string(schemaText), `\"`))
}

func lib1(s string) string {
	if len(s) > 160 {
		return s[:160] + "..."
	}
	return s
}

// Aux: `vh aux C01 -seed S -n N` dumps N generated pairs with the model's verdict as JSON lines, for the
// python cross-check of the reference model (tools/crosscheck_model.py, thorough tier).
func (p *c01) Aux(args []string) int {
	fs := flag.NewFlagSet("aux", flag.ExitOnError)
	seed := fs.Int64("seed", 1, "")
	n := fs.Int("n", 20000, "")
	_ = fs.Parse(args)
	w := bufio.NewWriter(os.Stdout)
	defer w.Flush()
	for i := 0; i < *n; i++ {
		r := lib.NewRand(*seed, "C01-crosscheck", i)
		_, doc, instRaw := genPair(r, gen.SchemaOpts{MaxDepth: 4, Refs: true, FormatAnyType: false, SpecialNames: true})
		st, it := gen.JSON(doc), gen.JSON(instRaw)
		schema, err1 := model.Parse(st)
		inst, err2 := model.Parse(it)
		if err1 != nil || err2 != nil {
			continue
		}
		mc := &model.Ctx{Root: schema, Formats: nil} // formats are not asserted by the python validator either
		v := mc.Valid(schema, inst)
		if mc.Unresolved {
			continue
		}
		line, _ := json.Marshal(map[string]any{"schema": json.RawMessage(st), "instance": json.RawMessage(it), "model_valid": v})
		w.Write(line)
		w.WriteByte('\n')
	}
	return 0
}
