package props

import (
	"bytes"
	"encoding/json"
	"fmt"
	"reflect"

	"github.com/go-openapi/strfmt"
	"github.com/go-openapi/validate"

	"verif/harness/gen"
	"verif/harness/lib"
	"verif/harness/sut"
)

// C12 — validation treats its inputs as read-only.
type c12 struct {
	base
	kept []c12Kept // inputs of earlier calls of this process, re-examined after later calls
}

// c12Kept is an input which a finished call left behind, with its snapshot: a recycled validator which kept an alias
// into a caller's schema or instance writes into it during a LATER validation, when nobody looks at that call any more.
type c12Kept struct {
	what       string
	live, snap any
	text       string
}

func (p *c12) keep(what string, live, snap any) {
	if len(p.kept) >= 64 {
		p.kept = p.kept[1:]
	}
	p.kept = append(p.kept, c12Kept{what: what, live: live, snap: snap, text: jsonText(live)})
}

// recheck compares every kept input with its snapshot again.
func (p *c12) recheck() *lib.Violation {
	for _, k := range p.kept {
		if after := jsonText(k.live); after != k.text || !reflect.DeepEqual(k.live, k.snap) {
			p.kept = nil
			return &lib.Violation{What: fmt.Sprintf("an input of an EARLIER call was modified by a later validation (%s): before=%s after=%s", k.what, k.text, after)}
		}
	}
	return nil
}

func init() {
	lib.Register(&c12{base: base{
		id: "C12", level: "exploration",
		technique: "runtime snapshot monitor: before every call the instance, the ($ref-free) schema object, the raw bytes and the parsed specification are deep-snapshotted (independent second decoding + JSON text); after the call the live objects are compared with the snapshots by reflect.DeepEqual and by JSON text",
		rule: "schema-level and parameter/header cases (17 of 18): $ref-free schemas with defaults from the draft-4 grammar x schema-derived and free instances through AgainstSchema, NewSchemaValidator with and without recycling, and parameter/header validators over typed slices; spec-level cases (1 of 18): generated clean specifications and accepted fixtures through Spec and SpecValidator.Validate in both continue-on-errors modes, comparing doc.Raw() bytes and, for accepted documents (the generator produces no self-referential definitions), the FULLY EXPANDED doc.Spec() computed on a deep copy before and after (the expander rewrites $ref nodes in place by design, which full expansion makes invisible, as the property's observation point says); distinct = FNV-64 of the inputs; non-trivial = the input contains a container (object/array/slice) the callee could write into and, for schemas, at least one default",
		assumptions: []string{
			"post.ApplyDefaults / post.Prune are not called (they mutate by contract)",
			"schemas with $ref are excluded from the schema clause (the expander rewrites them in place by design), as the property states",
			"sampled input space",
		},
		quick: 9000, thorough: 180000,
	}})
}

func (p *c12) Init(w *lib.Worker) error { return nil }

func (p *c12) Finish(a *lib.Aggregate) (broken []string) {
	if a.Tags["accepted-and-compared"] == 0 {
		broken = append(broken, "no accepted specification was compared before/after")
	}
	if a.Tags["schema-level"] == 0 || a.Tags["simple-level"] == 0 {
		broken = append(broken, "schema-level or simple-level cases missing")
	}
	return
}

func (p *c12) Chunk(tier string) int {
	return 100
}

func jsonText(v any) string {
	b, err := json.Marshal(v)
	if err != nil {
		return "marshal error: " + err.Error()
	}
	return string(b)
}

func hasContainer(v any) bool {
	switch x := v.(type) {
	case map[string]any:
		return true
	case []any:
		return true
	default:
		_ = x
		rv := reflect.ValueOf(v)
		return rv.IsValid() && (rv.Kind() == reflect.Slice || rv.Kind() == reflect.Map)
	}
}

func (p *c12) Run(w *lib.Worker, idx int, r *lib.Rand) lib.Case {
	c := p.run(w, idx, r)
	if c.Viol == nil {
		if v := p.recheck(); v != nil {
			v.What += fmt.Sprintf(" [noticed after case %d]", idx)
			c.Viol = v
		}
	}
	return c
}

func (p *c12) run(w *lib.Worker, idx int, r *lib.Rand) lib.Case {
	switch {
	case idx%18 == 5:
		return p.specCase(w, idx, r)
	case idx%6 == 4:
		return p.simpleCase(idx, r)
	}
	g := &gen.SchemaGen{R: r, O: gen.SchemaOpts{MaxDepth: 4, Refs: false, Defaults: true, SpecialNames: true, FormatAnyType: true}}
	doc := g.Document()
	if r.P(0.3) {
		// degenerate but decodable schemas too (invalid regular expressions, empty lists, foreign keywords ...)
		g.Degenerate(doc, false)
	}
	if r.P(0.2) {
		// a closed object whose patternProperties hold a key which is not a valid regular expression
		// (skipped by the validators; it must stay in the caller's schema)
		pp, _ := doc["patternProperties"].(map[string]any)
		if pp == nil {
			pp = map[string]any{}
			doc["patternProperties"] = pp
		}
		pp[r.Pick("(", "^(?=x-)[a-z-]+$", "[a", "*")] = map[string]any{"type": "integer"}
		if r.P(0.7) {
			doc["additionalProperties"] = false
		}
		if _, isObj := doc["type"]; !isObj {
			doc["type"] = "object"
		}
	}
	var inst any
	if r.P(0.6) {
		inst = g.Instance(doc, doc, 0, 0.2)
	} else {
		inst = g.FreeValue(3)
	}
	st, it := gen.JSON(doc), gen.JSON(inst)
	if bytes.Contains(st, []byte(`"$ref"`)) {
		return lib.Case{Tags: []string{"schema-with-ref-skipped"}} // the schema clause is about reference-free schemas
	}
	if _, err := sut.Schema(st); err != nil {
		return lib.Case{Tags: []string{"schema-does-not-decode"}}
	}
	c := lib.Case{Hash: lib.Hash64(append(append([]byte{}, st...), it...)), Evals: 6}
	c.Nontrivial = hasContainer(inst) && g.Features["default"]
	// every entry point twice: the instance as encoding/json decodes it by default (numbers as float64) and as a
	// decoder with UseNumber hands it over (json.Number leaves inside the caller's containers)
	for mode, name := range []string{"AgainstSchema", "NewSchemaValidator", "NewSchemaValidator+recycle", "AgainstSchema/json.Number", "NewSchemaValidator/json.Number", "NewSchemaValidator+recycle/json.Number"} {
		live, _ := sut.Schema(st)
		snapSchema, _ := sut.Schema(st)
		liveVal, _ := sut.Value(it)
		snapVal, _ := sut.Value(it)
		if mode >= 3 {
			liveVal, _ = decodeNumber(it)
			snapVal, _ = decodeNumber(it)
		}
		schemaBefore, valBefore := jsonText(live), jsonText(liveVal)
		o := sut.Guard(func() sut.Outcome {
			switch mode % 3 {
			case 0:
				return sut.FromError(validate.AgainstSchema(live, liveVal, strfmt.Default))
			case 1:
				return sut.FromResult(validate.NewSchemaValidator(live, nil, "root", strfmt.Default).Validate(liveVal))
			default:
				return sut.FromResult(validate.NewSchemaValidator(live, nil, "root", strfmt.Default, validate.WithRecycleValidators(true)).Validate(liveVal))
			}
		})
		if o.Panic != "" {
			c.Viol = &lib.Violation{What: "panic: " + o.Panic, Detail: map[string]any{"schema": string(st), "instance": string(it), "entry": name}}
			return c
		}
		sample := map[string]any{"schema": string(st), "instance": string(it), "entry": name}
		if after := jsonText(liveVal); after != valBefore || !reflect.DeepEqual(liveVal, snapVal) {
			sample["instance_after"] = after
			c.Viol = &lib.Violation{What: fmt.Sprintf("%s modified the instance: before=%s after=%s schema=%s", name, valBefore, after, st), Detail: sample}
			return c
		}
		if after := jsonText(live); after != schemaBefore || !reflect.DeepEqual(live, snapSchema) {
			sample["schema_after"] = after
			c.Viol = &lib.Violation{What: fmt.Sprintf("%s modified a $ref-free schema: before=%s after=%s instance=%s", name, schemaBefore, after, it), Detail: sample}
			return c
		}
		if idx%30000 == 0 && mode == 0 {
			c.Sample = sample
		}
		if mode%3 != 1 {
			// the recycling entry points: what they leave in the pools may still point at these inputs
			p.keep(fmt.Sprintf("schema of %s, case %d", name, idx), live, snapSchema)
			p.keep(fmt.Sprintf("instance of %s, case %d", name, idx), liveVal, snapVal)
		}
	}
	c.Tags = []string{"schema-level", boolTag("has-default", g.Features["default"]), boolTag("container-instance", hasContainer(inst))}
	return c
}

func cloneGo(v any) any {
	rv := reflect.ValueOf(v)
	if !rv.IsValid() {
		return nil
	}
	switch rv.Kind() { //nolint:exhaustive
	case reflect.Slice:
		if rv.IsNil() {
			return v
		}
		out := reflect.MakeSlice(rv.Type(), rv.Len(), rv.Len())
		for i := 0; i < rv.Len(); i++ {
			e := rv.Index(i)
			if e.Kind() == reflect.Interface || e.Kind() == reflect.Slice {
				ce := cloneGo(e.Interface())
				if ce == nil {
					continue
				}
				out.Index(i).Set(reflect.ValueOf(ce))
			} else {
				out.Index(i).Set(e)
			}
		}
		return out.Interface()
	}
	return v
}

func (p *c12) simpleCase(idx int, r *lib.Rand) lib.Case {
	sg := &gen.SimpleGen{R: r}
	d := sg.Definition(3)
	d.Type = "array"
	if d.Items == nil {
		d.Items = sg.Definition(2)
	}
	v := sg.Value(d, 0.3)
	snap := cloneGo(v)
	before := fmt.Sprintf("%#v", v)
	render := renderDef(d) + " <- " + before
	c := lib.Case{Hash: lib.Hash64([]byte(render)), Nontrivial: hasContainer(v), Evals: 2, Tags: []string{"simple-level"}}
	for _, recycle := range []bool{false, true} {
		var opts []validate.Option
		if recycle {
			opts = append(opts, validate.WithRecycleValidators(true))
		}
		o := sut.Guard(func() sut.Outcome {
			if idx%12 == 4 {
				return sut.FromResult(validate.NewHeaderValidator("X-H", sg.Header(d), strfmt.Default, opts...).Validate(v))
			}
			return sut.FromResult(validate.NewParamValidator(sg.Param(d, "p", "query"), strfmt.Default, opts...).Validate(v))
		})
		if o.Panic != "" {
			c.Viol = &lib.Violation{What: "panic: " + o.Panic + " on " + render}
			return c
		}
		if after := fmt.Sprintf("%#v", v); after != before || !reflect.DeepEqual(v, snap) {
			c.Viol = &lib.Violation{What: fmt.Sprintf("parameter/header validation modified its value: before=%s after=%s def=%s", before, after, renderDef(d))}
			return c
		}
	}
	return c
}
