package props

import (
	"fmt"
	"math/bits"
	"sort"
	"strings"

	"github.com/go-openapi/strfmt"
	"github.com/go-openapi/validate"

	"verif/harness/gen"
	"verif/harness/lib"
	"verif/harness/model"
	"verif/harness/sut"
)

// C16 — parameter, header and items validators follow Swagger simple-schema semantics.
type c16 struct{ base }

func init() {
	lib.Register(&c16{base{
		id: "C16", level: "exploration",
		technique: "runtime reference-model monitor: generated simple-schema definitions x typed Go values (every integer and float width, strings, typed and untyped slices nested to depth 4) are validated through NewParamValidator / NewHeaderValidator (recycling off and on) and the verdict is compared online with an independent exact-arithmetic model of simple-schema semantics",
		rule: "definitions: type x compatible format x enum (JSON-decoded and programmatic typed) x numeric/string/array constraints x nested items (depth<=4), integral constraints on integer types; values: near the constraint boundaries in an exactly-representing random Go carrier, violations planted at a random nesting depth, 8% of a non-matching kind; distinct = FNV-64 of definition+value rendering; non-trivial = the definition carries >=1 constraint beyond its type, or nested items",
		assumptions: []string{
			"nil elements and named types are outside the compared domain; []uint8 slices and empty-string header values are inside it (both meet recorded findings: the library takes []byte for a binary string and builds the header's string validator with required=true)",
			"the simple-schema model (harness/model/simple.go) is correct; exact rationals; Go regexp and strfmt.Default shared with the implementation as the property allows",
			"sampled input space",
		},
		quick: 300000, thorough: 20000000,
	}})
}

func (p *c16) Init(w *lib.Worker) error { return nil }

func explainSimple(d *model.SimpleDef, v any, implValid bool, formats strfmt.Registry, header bool) []string {
	n := len(model.SimpleEmuNames)
	masks := []int{}
	for m := 1; m < 1<<n; m++ {
		masks = append(masks, m)
	}
	sort.Slice(masks, func(i, j int) bool {
		if a, b := bits.OnesCount(uint(masks[i])), bits.OnesCount(uint(masks[j])); a != b {
			return a < b
		}
		return masks[i] < masks[j]
	})
	for _, m := range masks {
		c := &model.SimpleCtx{Formats: formats, Emu: model.SimpleEmuFromMask(m), Header: header}
		if c.Valid(d, v, true) == implValid {
			var keys []string
			for i, name := range model.SimpleEmuNames {
				if m&(1<<i) != 0 {
					if !c.Fired[name] {
						keys = nil
						break
					}
					keys = append(keys, name)
				}
			}
			if keys != nil {
				return keys
			}
		}
	}
	return nil
}

func renderDef(d *model.SimpleDef) string {
	var b strings.Builder
	var w func(d *model.SimpleDef)
	w = func(d *model.SimpleDef) {
		fmt.Fprintf(&b, "{type:%s", d.Type)
		if d.Format != "" {
			fmt.Fprintf(&b, " format:%s", d.Format)
		}
		if len(d.Enum) > 0 {
			fmt.Fprintf(&b, " enum:%#v", d.Enum)
		}
		if d.Minimum != nil {
			fmt.Fprintf(&b, " min:%v excl:%v", *d.Minimum, d.ExclMin)
		}
		if d.Maximum != nil {
			fmt.Fprintf(&b, " max:%v excl:%v", *d.Maximum, d.ExclMax)
		}
		if d.MultipleOf != nil {
			fmt.Fprintf(&b, " multipleOf:%v", *d.MultipleOf)
		}
		if d.MinLength != nil {
			fmt.Fprintf(&b, " minLength:%d", *d.MinLength)
		}
		if d.MaxLength != nil {
			fmt.Fprintf(&b, " maxLength:%d", *d.MaxLength)
		}
		if d.Pattern != "" {
			fmt.Fprintf(&b, " pattern:%q", d.Pattern)
		}
		if d.MinItems != nil {
			fmt.Fprintf(&b, " minItems:%d", *d.MinItems)
		}
		if d.MaxItems != nil {
			fmt.Fprintf(&b, " maxItems:%d", *d.MaxItems)
		}
		if d.UniqueItems {
			b.WriteString(" uniqueItems")
		}
		if d.Required {
			b.WriteString(" required")
		}
		if d.Items != nil {
			b.WriteString(" items:")
			w(d.Items)
		}
		b.WriteString("}")
	}
	w(d)
	return b.String()
}

func constrained(d *model.SimpleDef) bool {
	return d.Format != "" || len(d.Enum) > 0 || d.Minimum != nil || d.Maximum != nil || d.MultipleOf != nil ||
		d.MinLength != nil || d.MaxLength != nil || d.Pattern != "" || d.MinItems != nil || d.MaxItems != nil || d.UniqueItems || d.Items != nil
}

func (p *c16) Run(w *lib.Worker, idx int, r *lib.Rand) lib.Case {
	sg := &gen.SimpleGen{R: r, ByteSlices: true}
	d := sg.Definition(r.Range(0, 4))
	isHeader := idx%3 == 2
	if !isHeader {
		d.Required = r.P(0.2)
	}
	v := sg.Value(d, 0.3)
	if idx%97 == 0 {
		v = nil
	}
	render := fmt.Sprintf("%s <- %T(%#v) header=%v", renderDef(d), v, v, isHeader)
	c := lib.Case{Hash: lib.Hash64([]byte(render)), Nontrivial: constrained(d), Evals: 2}
	// every fourth case runs with a caller-supplied registry which disagrees with strfmt.Default on the string formats
	formats, regName := strfmt.Registry(strfmt.Default), "strfmt.Default"
	if idx%4 == 1 {
		formats, regName = altRegistry(), "alternative"
	}
	render += " registry=" + regName
	mc := &model.SimpleCtx{Formats: formats, Header: isHeader}
	want := mc.Valid(d, v, true)
	if mc.OutOfDomain {
		return lib.Case{Tags: []string{"out-of-domain"}}
	}
	run := func(recycle bool) sut.Outcome {
		return sut.Guard(func() sut.Outcome {
			var opts []validate.Option
			if recycle {
				opts = append(opts, validate.WithRecycleValidators(true))
			}
			if isHeader {
				return sut.FromResult(validate.NewHeaderValidator("X-H", sg.Header(d), formats, opts...).Validate(v))
			}
			return sut.FromResult(validate.NewParamValidator(sg.Param(d, "p", "query"), formats, opts...).Validate(v))
		})
	}
	plain, rec := run(false), run(true)
	sample := map[string]any{"case": render, "model": want, "validator": plain, "recycling_validator": rec}
	c.Tags = append(c.Tags, "type:"+d.Type, boolTag("model-valid", want), boolTag("header", isHeader), fmt.Sprintf("carrier:%T", v), "registry:"+regName)
	if idx%60000 == 0 {
		c.Sample = sample
	}
	if plain.Panic != "" || rec.Panic != "" {
		c.Viol = &lib.Violation{What: "panic: " + plain.Panic + rec.Panic + " on " + render, Detail: sample}
		return c
	}
	if v == nil {
		if !plain.Nil || !rec.Nil {
			if len(plain.Errors) > 0 || len(rec.Errors) > 0 {
				c.Viol = &lib.Violation{What: "a nil value was validated: " + render, Detail: sample}
			}
		}
		c.Tags = append(c.Tags, "nil-value")
		return c
	}
	if plain.Valid != rec.Valid {
		c.Viol = &lib.Violation{What: "recycling changes the verdict: " + render, Detail: sample}
		return c
	}
	if plain.Valid == want {
		return c
	}
	if keys := explainSimple(d, v, plain.Valid, formats, isHeader); keys != nil {
		c.Known = keys
		c.KnownWhat = fmt.Sprintf("%s model=%v impl=%v %v", render, want, plain.Valid, plain.Errors)
		c.Sample = sample
		return c
	}
	c.Viol = &lib.Violation{What: fmt.Sprintf("verdict differs from simple-schema semantics: model=%v impl=%v %s errors=%v", want, plain.Valid, render, plain.Errors), Detail: sample}
	return c
}

func (p *c16) Finish(a *lib.Aggregate) (broken []string) {
	for _, t := range []string{"type:string", "type:integer", "type:number", "type:boolean", "type:array", "model-valid:yes", "model-valid:no", "header:yes", "header:no", "nil-value"} {
		if a.Tags[t] == 0 {
			broken = append(broken, "never exercised: "+t)
		}
	}
	return
}
