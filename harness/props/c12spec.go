package props

import (
	"bytes"
	"encoding/json"
	"fmt"
	"reflect"
	"sort"
	"strings"

	"github.com/go-openapi/strfmt"
	"github.com/go-openapi/validate"

	"verif/harness/gen"
	"verif/harness/lib"
	"verif/harness/model"
	"verif/harness/sut"
)

var c12Fixtures map[string][]byte

// specCase: validating a specification never changes the bytes of the loaded document nor, for a
// document it accepts that has no self-referential definitions, the parsed specification.
func (p *c12) specCase(w *lib.Worker, idx int, r *lib.Rand) lib.Case {
	if c12Fixtures == nil {
		c12Fixtures, _ = gen.FixtureDocs(model.RepoDir())
	}
	var text []byte
	what := "generated-clean"
	switch {
	case r.P(0.15) && len(c12Fixtures) > 0:
		names := make([]string, 0, len(c12Fixtures))
		for k := range c12Fixtures {
			names = append(names, k)
		}
		sort.Strings(names)
		what = "fixture:" + names[r.Intn(len(names))]
		text = c12Fixtures[strings.TrimPrefix(what, "fixture:")]
	case r.P(0.15):
		g := &gen.SpecGen{R: r, Tag: fmt.Sprintf("s%d", idx)}
		tree := g.Clean()
		g.Apply(gen.Faults[r.Intn(len(gen.Faults))])
		what = "generated-faulted"
		text = gen.JSON(tree)
	default:
		g := &gen.SpecGen{R: r, Tag: fmt.Sprintf("s%d", idx)}
		text = gen.JSON(g.Clean())
	}
	c := lib.Case{Hash: lib.Hash64(text), Nontrivial: true, Tags: []string{"spec-level", "spec:" + strings.SplitN(what, ":", 2)[0]}}
	for _, mode := range []string{"stop", "continue", "Spec()"} {
		doc, err := sut.LoadSpec(text)
		if err != nil {
			c.Tags = append(c.Tags, "does-not-load")
			return c
		}
		snap, _ := sut.LoadSpec(text)
		rawBefore := append([]byte{}, doc.Raw()...)
		specBefore, _ := json.Marshal(doc.Spec())
		var valid bool
		o := sut.Guard(func() sut.Outcome {
			switch mode {
			case "Spec()":
				valid = validate.Spec(doc, strfmt.Default) == nil
			default:
				v := validate.NewSpecValidator(doc.Schema(), strfmt.Default)
				v.SetContinueOnErrors(mode == "continue")
				errs, _ := v.Validate(doc)
				valid = errs.IsValid()
			}
			return sut.Outcome{Valid: true}
		})
		c.Evals++
		if o.Panic != "" {
			c.Inconclusive = "panic (see C07): " + lib1(o.Panic)
			return c
		}
		sample := map[string]any{"document": string(text), "what": what, "mode": mode, "accepted": valid}
		if !bytes.Equal(rawBefore, doc.Raw()) {
			c.Viol = &lib.Violation{What: "validation changed the raw bytes of the loaded document (" + mode + ")", Detail: sample}
			return c
		}
		if valid {
			specAfter, _ := json.Marshal(doc.Spec())
			if !bytes.Equal(specBefore, specAfter) || !reflect.DeepEqual(doc.Spec(), snap.Spec()) {
				sample["spec_before"], sample["spec_after"] = string(specBefore), string(specAfter)
				c.Viol = &lib.Violation{What: fmt.Sprintf("validation changed the parsed specification of a document it accepts (%s, %s)", mode, what), Detail: sample}
				return c
			}
			c.Tags = append(c.Tags, "accepted-and-compared")
		}
		if idx%1800 == 5 && mode == "stop" {
			c.Sample = sample
		}
	}
	return c
}
