package props

import (
	"bytes"
	"encoding/json"
	"fmt"
	"sort"
	"strings"

	"github.com/go-openapi/spec"
	"github.com/go-openapi/strfmt"
	"github.com/go-openapi/validate"

	"verif/harness/gen"
	"verif/harness/lib"
	"verif/harness/model"
	"verif/harness/sut"
)

var c12Fixtures map[string][]byte

// specCase: validating a specification never changes the bytes of the loaded document nor, for a
// document it accepts that has no self-referential definitions, the parsed specification.
func (p *c12) specCase(w *lib.Worker, idx int, r *lib.Rand) lib.Case {
	if c12Fixtures == nil {
		c12Fixtures, _ = gen.FixtureDocs(model.RepoDir())
	}
	var text []byte
	what := "generated-clean"
	switch {
	case r.P(0.15) && len(c12Fixtures) > 0:
		names := make([]string, 0, len(c12Fixtures))
		for k := range c12Fixtures {
			names = append(names, k)
		}
		sort.Strings(names)
		what = "fixture:" + names[r.Intn(len(names))]
		text = c12Fixtures[strings.TrimPrefix(what, "fixture:")]
	case r.P(0.15):
		g := &gen.SpecGen{R: r, Tag: fmt.Sprintf("s%d", idx%5)}
		tree := g.Clean()
		g.Apply(gen.Faults[r.Intn(len(gen.Faults))])
		what = "generated-faulted"
		text = gen.JSON(tree)
	default:
		g := &gen.SpecGen{R: r, Tag: fmt.Sprintf("s%d", idx%5)}
		text = gen.JSON(g.Clean())
	}
	c := lib.Case{Hash: lib.Hash64(text), Nontrivial: true, Tags: []string{"spec-level", "spec:" + strings.SplitN(what, ":", 2)[0]}}
	for _, mode := range []string{"stop", "continue", "Spec()"} {
		doc, err := sut.LoadSpec(text)
		if err != nil {
			c.Tags = append(c.Tags, "does-not-load")
			return c
		}
		rawBefore := append([]byte{}, doc.Raw()...)
		specBefore, experr := expandedJSON(doc.Spec())
		if experr != nil {
			c.Tags = append(c.Tags, "not-expandable")
			return c
		}
		var valid bool
		o := sut.Guard(func() sut.Outcome {
			switch mode {
			case "Spec()":
				valid = validate.Spec(doc, strfmt.Default) == nil
			default:
				v := validate.NewSpecValidator(doc.Schema(), strfmt.Default)
				v.SetContinueOnErrors(mode == "continue")
				errs, _ := v.Validate(doc)
				valid = errs.IsValid()
			}
			return sut.Outcome{Valid: true}
		})
		c.Evals++
		if o.Panic != "" {
			c.Inconclusive = "panic (see C07): " + lib1(o.Panic)
			return c
		}
		sample := map[string]any{"document": string(text), "what": what, "mode": mode, "accepted": valid}
		if !bytes.Equal(rawBefore, doc.Raw()) {
			c.Viol = &lib.Violation{What: "validation changed the raw bytes of the loaded document (" + mode + ")", Detail: sample}
			return c
		}
		if valid {
			specAfter, _ := expandedJSON(doc.Spec())
			if !bytes.Equal(specBefore, specAfter) {
				sample["expanded_spec_before"], sample["expanded_spec_after"] = string(specBefore), string(specAfter)
				c.Viol = &lib.Violation{What: fmt.Sprintf("validation changed the parsed specification of a document it accepts (%s, %s)", mode, what), Detail: sample}
				return c
			}
			c.Tags = append(c.Tags, "accepted-and-compared")
		}
		if idx%1800 == 5 && mode == "stop" {
			c.Sample = sample
		}
	}
	return c
}

// expandedJSON renders the FULLY EXPANDED form of a parsed specification (computed on a deep copy): the
// property compares that form, because the reference expander rewrites $ref nodes in place by design.
func expandedJSON(sw *spec.Swagger) ([]byte, error) {
	b, err := json.Marshal(sw)
	if err != nil {
		return nil, err
	}
	cp := new(spec.Swagger)
	if err := json.Unmarshal(b, cp); err != nil {
		return nil, err
	}
	if err := spec.ExpandSpec(cp, &spec.ExpandOptions{RelativeBase: "", SkipSchemas: false}); err != nil {
		return nil, err
	}
	return json.Marshal(cp)
}
