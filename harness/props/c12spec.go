package props

import (
	"verif/harness/lib"
)

// specCase is filled in once the specification generator exists (see c12spec_impl.go).
func (p *c12) specCase(w *lib.Worker, idx int, r *lib.Rand) lib.Case {
	return c12SpecCase(p, w, idx, r)
}

var c12SpecCase = func(p *c12, w *lib.Worker, idx int, r *lib.Rand) lib.Case {
	return lib.Case{Tags: []string{"spec-level-not-built"}}
}
