package props

import (
	"encoding/json"
	"fmt"
	"math/big"
	"reflect"
	"strings"

	"github.com/go-openapi/spec"
	"github.com/go-openapi/strfmt"
	"github.com/go-openapi/validate"

	"verif/harness/gen"
	"verif/harness/lib"
	"verif/harness/model"
	"verif/harness/sut"
)

// C13 — numeric verdicts depend on the number, not on the Go type that carries it.
type c13 struct{ base }

func init() {
	lib.Register(&c13{base{
		id: "C13", level: "exploration",
		technique: "runtime reference-model monitor: (value, Go carrier kind, constraint, entry point) tuples are executed through the exported numeric helpers, parameter/header validators and AgainstSchema with typed data, and each verdict is compared online with exact rational arithmetic on the mathematical values; the same value is pushed through every carrier that represents it exactly and the verdicts must coincide",
		rule: "constraints from a pool of fractional, negative, zero, type-limit (2^7..2^64) and very large values (exactly representable; decimal fractions with <=6 fractional digits for multipleOf); values placed at constraint +/- {0,1,0.5,2^-10} or at k*factor with quotients up to 10^9, carried by each of the 12 Go numeric kinds (and json.Number through schema validation) whenever the kind represents the value exactly; operations max/min (inclusive and exclusive) and multipleOf; entry points: *NativeType helpers, typed helpers, NewParamValidator/NewHeaderValidator, AgainstSchema; distinct = FNV-64 of the rendered tuple; non-trivial = the constraint is not an integer, or lies at a width/sign boundary, or the quotient exceeds 10^6, or the carrier is not float64",
		assumptions: []string{
			"exact arithmetic by math/big.Rat; a float carrier's value is the float's exact binary value, a multipleOf factor's value is its decimal text",
			"values are kept inside the range of the declared type/format for parameter/header cases, as the property's quantifier says",
			"sampled input space",
		},
		quick: 300000, thorough: 30000000,
	}})
}

func (p *c13) Init(w *lib.Worker) error { return nil }

var c13Bounds = []string{
	"0", "1", "-1", "2", "5", "10", "0.5", "1.5", "-1.5", "-0.5", "2.25", "7.75", "100.125", "-100.125",
	"127", "128", "-128", "-129", "255", "256", "32767", "32768", "65535", "65536", "2147483647", "2147483648", "-2147483648", "-2147483649",
	"4294967295", "4294967296", "9007199254740991", "-9007199254740991", "1000000000000000", "123456789.5", "4503599627370495.5",
}

var c13Factors = []string{"1", "2", "3", "5", "10", "7", "0.5", "0.25", "0.125", "1.5", "2.5", "0.1", "0.01", "0.001", "0.000001", "0.3", "1000", "1000000", "0", "-1", "-2.5"}

func rat(s string) *big.Rat {
	r, ok := new(big.Rat).SetString(s)
	if !ok {
		panic("bad rational " + s)
	}
	return r
}

// isExactFloat tells whether the rational is exactly a float64.
func isExactFloat(r *big.Rat) bool { _, exact := r.Float64(); return exact }

type numCase struct {
	op      string // max, maxx, min, minx, mult
	cText   string // constraint (decimal text)
	c       float64
	cr      *big.Rat // mathematical value of the constraint
	v       *big.Rat
	carrier any
	kind    reflect.Kind
	idx     int
}

func (n *numCase) expected() bool {
	switch n.op {
	case "max":
		return n.v.Cmp(n.cr) <= 0
	case "maxx":
		return n.v.Cmp(n.cr) < 0
	case "min":
		return n.v.Cmp(n.cr) >= 0
	case "minx":
		return n.v.Cmp(n.cr) > 0
	default:
		if n.cr.Sign() <= 0 {
			return false // the factor must be positive: an error for every value
		}
		return new(big.Rat).Quo(n.v, n.cr).IsInt()
	}
}

// floatPath tells whether the implementation, by its own documented dispatch, evaluates this
// multipleOf on float64 (where the recorded tolerance finding lives) rather than on integers.
func (n *numCase) floatTolerance() bool {
	if n.op != "mult" || n.c <= 0 {
		return false
	}
	fv, _ := n.v.Float64()
	mc := &model.Ctx{Emu: model.Emu{MultipleOfFloat: true}}
	got := mc.MultipleOK(new(big.Rat).SetFloat64(fv), n.cr)
	return mc.Fired["multipleof-float-tolerance"] && got != n.expected() || floatQuotientDiffers(fv, n.c, n.expected())
}

// implUsesFloat tells whether the library, by its own documented dispatch, evaluates this multipleOf by float64
// division (where the recorded tolerance finding lives): float carriers always; integer carriers only when the
// factor is not an integer fitting the carrier's 64-bit flavour (values.go MultipleOfNativeType); a json.Number
// travels as int64 when the schema names integer and the literal is integral, as float64 otherwise.
func (n *numCase) implUsesFloat(entry, render string) bool {
	intFactor := n.cr.IsInt()
	signedExact := intFactor && n.cr.Num().IsInt64()
	unsignedExact := intFactor && n.cr.Num().IsUint64()
	if entry == "schema-jsonnumber" {
		if strings.Contains(render, `"integer"`) && n.v.IsInt() && n.v.Num().IsInt64() {
			return !signedExact
		}
		return true
	}
	switch {
	case n.kind >= reflect.Int && n.kind <= reflect.Int64:
		return !signedExact
	case n.kind >= reflect.Uint && n.kind <= reflect.Uint64:
		return !unsignedExact
	}
	return true
}

func floatQuotientDiffers(fv, fm float64, want bool) bool {
	mc := &model.Ctx{Emu: model.Emu{MultipleOfFloat: true}}
	v := new(big.Rat).SetFloat64(fv)
	m := new(big.Rat).SetFloat64(fm)
	if v == nil || m == nil || m.Sign() <= 0 {
		return false
	}
	return mc.MultipleOK(v, m) != want
}

func (p *c13) gen(r *lib.Rand) *numCase {
	n := &numCase{}
	n.op = []string{"max", "maxx", "min", "minx", "mult"}[r.Intn(5)]
	if n.op == "mult" {
		n.cText = c13Factors[r.Intn(len(c13Factors))]
		if r.P(0.4) {
			// a random decimal factor with at most 6 fractional digits
			n.cText = strings.TrimRight(strings.TrimRight(fmt.Sprintf("%d.%06d", r.Intn(50), r.Intn(1000000)), "0"), ".")
			if r.P(0.3) {
				n.cText = fmt.Sprintf("%d", r.Range(1, 100000))
			}
			if n.cText == "0" || n.cText == "" {
				n.cText = "0.5"
			}
		}
	} else {
		n.cText = c13Bounds[r.Intn(len(c13Bounds))]
		if r.P(0.5) {
			// a random bound: +-(2^k + small) or a dyadic fraction, exactly representable, within +-(2^53-1)
			k := r.Intn(53)
			v := new(big.Rat).SetInt(new(big.Int).Lsh(big.NewInt(1), uint(k)))
			v.Add(v, new(big.Rat).SetInt64(int64(r.Range(-3, 3))))
			if r.P(0.4) && k < 40 {
				v.Add(v, big.NewRat(int64(r.Range(1, 1023)), 1024))
			}
			if r.Bool() {
				v.Neg(v)
			}
			if new(big.Rat).Abs(v).Cmp(rat("9007199254740991")) <= 0 {
				if _, exact := v.Float64(); exact {
					n.cText = v.FloatString(10)
					if v.IsInt() {
						n.cText = v.Num().String()
					} else {
						n.cText = strings.TrimRight(n.cText, "0")
					}
				}
			}
		}
	}
	n.cr = rat(n.cText)
	n.c, _ = n.cr.Float64()
	if n.op != "mult" && !isExactFloat(n.cr) {
		// bounds must be exactly representable as float64: fall back to the float's own value
		n.cr = new(big.Rat).SetFloat64(n.c)
	}
	for try := 0; try < 40; try++ {
		var v *big.Rat
		if n.op == "mult" && n.cr.Sign() > 0 {
			k := int64(r.Range(-3, 50))
			switch r.Intn(6) {
			case 0:
				k = int64(r.Range(1000000, 1000000000))
			case 1:
				k = int64(r.Range(1, 9)) * 1000000007
			}
			v = new(big.Rat).Mul(n.cr, new(big.Rat).SetInt64(k))
			if r.P(0.45) {
				d := rat([]string{"0.5", "1", "0.25", "0.0009765625", "-0.5"}[r.Intn(5)])
				if r.Bool() {
					d.Mul(d, n.cr)
				}
				v.Add(v, d)
			}
		} else {
			d := rat([]string{"0", "0", "1", "-1", "0.5", "-0.5", "0.0009765625", "-0.0009765625", "2", "-2"}[r.Intn(10)])
			v = new(big.Rat).Add(n.cr, d)
			if n.op == "mult" {
				v = new(big.Rat).SetInt64(int64(r.Range(-5, 20)))
			} else if r.P(0.06) {
				// the far ends of the integer kinds (far from any bound: the verdict is obvious, a wrapped or
				// sign-flipped conversion is not)
				v = rat([]string{"18446744073709551615", "9223372036854775808", "9223372036854775809", "9223372036854775807", "-9223372036854775808",
					"4294967295", "4294967296", "2147483648", "-2147483649", "18446744073709551614"}[r.Intn(10)])
			}
		}
		k := gen.NumKinds[r.Intn(len(gen.NumKinds))]
		if (k == reflect.Float32 || k == reflect.Float64) && new(big.Rat).Abs(v).Cmp(rat("9007199254740991")) > 0 {
			continue // floats beyond +-(2^53-1) are outside the property's domain
		}
		if c, ok := gen.Carry(v, k); ok {
			n.v, n.carrier, n.kind = v, c, k
			return n
		}
	}
	n.v = big.NewRat(3, 1)
	n.carrier, n.kind = int64(3), reflect.Int64
	return n
}

func errNil(e any) bool {
	return e == nil || reflect.ValueOf(e).IsNil()
}

func (p *c13) Run(w *lib.Worker, idx int, r *lib.Rand) lib.Case {
	n := p.gen(r)
	n.idx = idx
	want := n.expected()
	entry := []string{"native", "typed", "param", "header", "schema", "schema-jsonnumber", "carriers"}[r.Weighted(4, 2, 3, 2, 3, 2, 2)]
	render := fmt.Sprintf("%s %s(%s) vs %s via %s", n.op, n.kind, n.v.RatString(), n.cText, entry)
	c := lib.Case{Hash: lib.Hash64([]byte(render)), Evals: 1}
	quot := new(big.Rat)
	if n.op == "mult" && n.cr.Sign() > 0 {
		quot.Quo(n.v, n.cr).Abs(quot)
	}
	c.Nontrivial = !n.cr.IsInt() || n.kind != reflect.Float64 || quot.Cmp(big.NewRat(1000000, 1)) > 0
	c.Tags = []string{"op:" + n.op, "entry:" + entry, "carrier:" + n.kind.String(), boolTag("expected-ok", want)}
	sample := map[string]any{"case": render, "exact_arithmetic_says_ok": want}
	if idx%60000 == 0 {
		c.Sample = sample
	}

	var got bool
	var msg string
	jsonNumberHelper := false
	o := sut.Guard(func() sut.Outcome {
		switch entry {
		case "native":
			if idx%16 == 7 {
				// the same helpers with the value as a json.Number (what a decoder with UseNumber hands to a caller who
				// passes it on): the verdict is judged on the number; the library reads a json.Number as 0 here (recorded)
				if txt := n.v.FloatString(12); n.v.IsInt() || rat(strings.TrimRight(txt, "0")).Cmp(n.v) == 0 {
					if n.v.IsInt() {
						txt = n.v.Num().String()
					} else {
						txt = strings.TrimRight(txt, "0")
					}
					n.carrier, jsonNumberHelper = json.Number(txt), true
					render += " carried by json.Number(" + txt + ")"
				}
			}
			var e any
			switch n.op {
			case "max", "maxx":
				e = validate.MaximumNativeType("p", "query", n.carrier, n.c, n.op == "maxx")
			case "min", "minx":
				e = validate.MinimumNativeType("p", "query", n.carrier, n.c, n.op == "minx")
			default:
				e = validate.MultipleOfNativeType("p", "query", n.carrier, n.c)
			}
			got = errNil(e)
			if !got {
				msg = fmt.Sprint(e)
			}
		case "typed":
			got, msg = p.typed(n)
		case "carriers":
			// every carrier which represents the value exactly must give the same verdict
			got = want
			for _, k := range gen.NumKinds {
				cv, ok := gen.Carry(n.v, k)
				if !ok || (k == reflect.Float32 || k == reflect.Float64) && new(big.Rat).Abs(n.v).Cmp(rat("9007199254740991")) > 0 {
					continue
				}
				var e any
				switch n.op {
				case "max", "maxx":
					e = validate.MaximumNativeType("p", "query", cv, n.c, n.op == "maxx")
				case "min", "minx":
					e = validate.MinimumNativeType("p", "query", cv, n.c, n.op == "minx")
				default:
					e = validate.MultipleOfNativeType("p", "query", cv, n.c)
				}
				if errNil(e) != want {
					got = !want
					msg = fmt.Sprintf("carrier %s: %v", k, e)
					n.kind, n.carrier = k, cv
					break
				}
			}
		case "param", "header":
			d := p.def(n, r)
			if d == nil {
				got = want
				return sut.Outcome{Valid: true}
			}
			sg := &gen.SimpleGen{}
			var res *validate.Result
			if entry == "param" {
				res = validate.NewParamValidator(sg.Param(d, "p", "query"), strfmt.Default).Validate(n.carrier)
			} else {
				res = validate.NewHeaderValidator("X-H", sg.Header(d), strfmt.Default).Validate(n.carrier)
			}
			got = res.IsValid()
			msg = strings.Join(sut.Msgs(res.Errors), "; ")
			sample["definition"] = renderDef(d)
			render += " def=" + renderDef(d)
			// the model for the whole definition (type and format range included)
			mc := &model.SimpleCtx{Formats: strfmt.Default}
			want = mc.Valid(d, n.carrier, true)
		default:
			s := p.schema(n, r)
			sample["schema"] = string(s)
			render += " schema=" + string(s)
			sch, _ := sut.Schema(s)
			var data any = n.carrier
			if entry == "schema-jsonnumber" {
				txt := n.v.FloatString(12)
				if n.v.IsInt() {
					txt = n.v.Num().String()
				} else {
					txt = strings.TrimRight(txt, "0")
				}
				if back := rat(txt); back.Cmp(n.v) != 0 || new(big.Rat).Abs(n.v).Cmp(rat("9007199254740991")) > 0 {
					got = want
					return sut.Outcome{Valid: true}
				}
				// the same number in another legal JSON spelling (what a decoder with UseNumber hands over verbatim)
				switch idx % 4 {
				case 2:
					if strings.Contains(txt, ".") {
						txt += "0"
					} else {
						txt += ".0"
					}
				case 3:
					if !strings.Contains(txt, ".") && strings.HasSuffix(txt, "0") && len(strings.TrimLeft(txt, "-")) > 1 {
						z := len(txt) - len(strings.TrimRight(txt, "0"))
						txt = fmt.Sprintf("%se%d", txt[:len(txt)-z], z)
					} else if i := strings.Index(txt, "."); i >= 0 {
						frac := len(txt) - i - 1
						txt = fmt.Sprintf("%sE-%d", strings.TrimLeft(strings.Replace(txt, ".", "", 1), "+"), frac)
						if strings.HasPrefix(txt, "-0") || strings.HasPrefix(txt, "0") {
							// keep a legal JSON number: no leading zeros in the mantissa
							neg := strings.HasPrefix(txt, "-")
							m := strings.TrimLeft(strings.TrimPrefix(txt, "-"), "0")
							if m == "" || m[0] == 'E' {
								m = "0" + m
							}
							if neg {
								m = "-" + m
							}
							txt = m
						}
					}
				}
				if back, ok := new(big.Rat).SetString(txt); !ok || back.Cmp(n.v) != 0 {
					return sut.Outcome{Panic: "harness: spelling " + txt + " does not denote the value"}
				}
				data = json.Number(txt)
				render += " json.Number(" + txt + ")"
			}
			err := validate.AgainstSchema(sch, data, strfmt.Default)
			got = err == nil
			if err != nil {
				msg = strings.Join(sut.FromError(err).Errors, "; ")
			}
			// the schema also declares a type: integer rejects non-integers
			if strings.Contains(string(s), `"integer"`) && !strings.Contains(string(s), `"number"`) && !n.v.IsInt() {
				want = false
			}
		}
		return sut.Outcome{Valid: true}
	})
	if o.Panic != "" {
		c.Viol = &lib.Violation{What: "panic: " + o.Panic + " on " + render, Detail: sample}
		return c
	}
	if got == want {
		return c
	}
	sample["implementation_says_ok"] = got
	sample["message"] = msg
	// recorded deviations
	if jsonNumberHelper {
		// explained iff the helper's answer is the answer exact arithmetic gives for the value 0
		zero := *n
		zero.v = new(big.Rat)
		if got == zero.expected() {
			c.Known = []string{"json-number-read-as-zero-by-native-type-helpers"}
			c.KnownWhat = fmt.Sprintf("%s exact=%v impl=%v (the answer for 0) %s", render, want, got, msg)
			c.Sample = sample
			return c
		}
	}
	if entry == "schema-jsonnumber" && !got && !strings.Contains(render, `"type"`) && strings.Contains(msg, "must be of type string") {
		c.Known = []string{"json-number-rejected-without-declared-numeric-type"}
		c.KnownWhat = fmt.Sprintf("%s exact=%v impl=%v %s", render, want, got, msg)
		c.Sample = sample
		return c
	}
	if n.op == "mult" && n.implUsesFloat(entry, render) && n.floatTolerance() {
		c.Known = []string{"multipleof-float-tolerance"}
		c.KnownWhat = fmt.Sprintf("%s exact=%v impl=%v %s", render, want, got, msg)
		c.Sample = sample
		return c
	}
	if (entry == "param" || entry == "header") && !got && strings.Contains(msg, "value must be of type") &&
		(strings.Contains(msg, "Maximum boundary") || strings.Contains(msg, "Minimum boundary") || strings.Contains(msg, "MultipleOf value")) {
		c.Known = []string{"constraint-outside-declared-range"}
		c.KnownWhat = fmt.Sprintf("%s exact=%v impl=%v %s", render, want, got, msg)
		c.Sample = sample
		return c
	}
	c.Viol = &lib.Violation{What: fmt.Sprintf("numeric verdict differs from exact arithmetic: %s exact=%v impl=%v %s", render, want, got, msg), Detail: sample}
	return c
}

func (p *c13) typed(n *numCase) (bool, string) {
	var e any
	f, exact := n.v.Float64()
	switch {
	case n.kind >= reflect.Int && n.kind <= reflect.Int64 && n.cr.IsInt() && n.cr.Num().IsInt64():
		v, ci := n.v.Num().Int64(), n.cr.Num().Int64()
		switch n.op {
		case "max", "maxx":
			e = validate.MaximumInt("p", "query", v, ci, n.op == "maxx")
		case "min", "minx":
			e = validate.MinimumInt("p", "query", v, ci, n.op == "minx")
		default:
			e = validate.MultipleOfInt("p", "query", v, ci)
		}
	case n.kind >= reflect.Uint && n.kind <= reflect.Uint64 && n.cr.IsInt() && n.cr.Num().IsUint64():
		v, ci := n.v.Num().Uint64(), n.cr.Num().Uint64()
		switch n.op {
		case "max", "maxx":
			e = validate.MaximumUint("p", "query", v, ci, n.op == "maxx")
		case "min", "minx":
			e = validate.MinimumUint("p", "query", v, ci, n.op == "minx")
		default:
			e = validate.MultipleOfUint("p", "query", v, ci)
		}
	default:
		if !exact {
			return n.expected(), ""
		}
		switch n.op {
		case "max", "maxx":
			e = validate.Maximum("p", "query", f, n.c, n.op == "maxx")
		case "min", "minx":
			e = validate.Minimum("p", "query", f, n.c, n.op == "minx")
		default:
			e = validate.MultipleOf("p", "query", f, n.c)
		}
	}
	if errNil(e) {
		return true, ""
	}
	return false, fmt.Sprint(e)
}

// def builds a parameter/header definition around the constraint; nil when the value is
// outside the range of every declarable type/format (outside the quantifier).
func (p *c13) def(n *numCase, r *lib.Rand) *model.SimpleDef {
	d := &model.SimpleDef{}
	if n.v.IsInt() && r.P(0.6) {
		d.Type = "integer"
		d.Format = []string{"", "int32", "int64", "uint32", "uint64"}[r.Intn(5)]
	} else {
		d.Type = "number"
		d.Format = []string{"", "float", "double"}[r.Intn(3)]
	}
	c := n.c
	switch n.op {
	case "max", "maxx":
		d.Maximum, d.ExclMax = &c, n.op == "maxx"
	case "min", "minx":
		d.Minimum, d.ExclMin = &c, n.op == "minx"
	default:
		d.MultipleOf = &c
	}
	// the value must be inside the declared type/format
	mc := &model.SimpleCtx{}
	plain := &model.SimpleDef{Type: d.Type, Format: d.Format}
	if !mc.Valid(plain, n.carrier, true) {
		if d.Type == "integer" {
			d.Format = ""
			plain.Format = ""
			if !mc.Valid(plain, n.carrier, true) {
				return nil
			}
		} else {
			return nil
		}
	}
	return d
}

func (p *c13) schema(n *numCase, r *lib.Rand) []byte {
	s := map[string]any{}
	switch {
	case n.v.IsInt() && r.P(0.4):
		s["type"] = "integer"
	case r.P(0.2):
		s["type"] = []any{"integer", "number"}
	case r.P(0.2):
		s["type"] = []any{"number", "integer"}
	default:
		s["type"] = "number"
	}
	switch n.op {
	case "max", "maxx":
		s["maximum"] = json.Number(n.cText)
		if n.op == "maxx" {
			s["exclusiveMaximum"] = true
		}
	case "min", "minx":
		s["minimum"] = json.Number(n.cText)
		if n.op == "minx" {
			s["exclusiveMinimum"] = true
		}
	default:
		s["multipleOf"] = json.Number(n.cText)
	}
	if n.idx%9 == 4 {
		// the constraint alone, without a declared type: the verdict must not depend on the carrier either
		delete(s, "type")
	}
	return gen.JSON(s)
}

var _ = spec.Schema{}

func (p *c13) Finish(a *lib.Aggregate) (broken []string) {
	for _, k := range gen.NumKinds {
		if a.Tags["carrier:"+k.String()] == 0 {
			broken = append(broken, "carrier never used: "+k.String())
		}
	}
	for _, e := range []string{"native", "typed", "param", "header", "schema", "schema-jsonnumber", "carriers"} {
		if a.Tags["entry:"+e] == 0 {
			broken = append(broken, "entry point never used: "+e)
		}
	}
	return
}
