package props

import (
	"encoding/json"
	"flag"
	"fmt"
	"os"
	"runtime"
	"strconv"

	"github.com/go-openapi/validate"

	"verif/harness/hist"
	"verif/harness/lib"
	"verif/harness/sut"
)

// C04 — object recycling never changes an outcome, whatever came before.
type c04 struct{ base }

func init() {
	lib.Register(&c04{base{
		id: "C04", level: "exploration",
		technique: "runtime self-differential monitor + invariant hooks: each history of calls through the recycling entry points is replayed three times in one process (poison-on-redeem on, poison off, GC forced between calls) and every outcome is compared with the same call executed through the non-recycling API in a FRESH process (a sample is re-computed one call per process); meanwhile the pool hooks run an ownership automaton (double redeem, borrow of an owned object, redeem of an unknown object) and overwrite every redeemed object so that any stale read or forgotten re-initialisation becomes a visible difference; messages are scanned for tags of other calls and for the poison mark",
		rule: "one case = one history of 60-240 calls mixing AgainstSchema, single-use recycling schema / parameter / header validators and whole-specification validation over generated schemas, instances, definitions, typed values and documents, including calls that end early (nil data, failed json.Number conversion, scalar at the root, first-error exits, invalid verdicts, anyOf/oneOf short-circuits) and schema calls under the option sets SwaggerSchema / EnableObjectArrayTypeCheck / EnableArrayMustHaveItemsCheck / WithSkipSchemataResult (with schema-shaped instances under a cut-down meta schema); every call carries a unique tag in its names; distinct = FNV-64 of the rendered history; non-trivial = the pools actually re-used objects during the history (re-use count > 0) and the history mixes at least 3 kinds of calls",
		assumptions: []string{
			"the library alone in a fresh process, through its non-recycling API, is the oracle (for Spec, which has no off switch: alone in a fresh process)",
			"outcomes are compared as verdict + sorted message multisets of errors and warnings",
			"poison is sound: after Put the pool contract hands the object to someone else, before Put nobody else can see it; every history is also run without poison so that a stale value poison could mask is seen as it is",
			"sampled histories",
		},
		quick: 64, thorough: 2400,
	}})
}

func (p *c04) Init(w *lib.Worker) error { return nil }
func (p *c04) Chunk(string) int         { return 2 }
func (p *c04) CaseTimeout(string) int   { return 900 }

func (p *c04) history(seed int64, idx int) []*hist.Op {
	r := lib.NewRand(seed, "C04", idx)
	docs := hist.SpecDocs(r.Fork(), 6)
	n := r.Range(60, 240)
	return hist.Gen(r, n, idx*1000, hist.Options{SpecDocs: docs, SpecEvery: 70})
}

// Aux computes the references of a history in a fresh process through the non-recycling API.
// -only k computes the k-th call alone (nothing else happens in that process).
func (p *c04) Aux(args []string) int {
	fs := flag.NewFlagSet("aux", flag.ExitOnError)
	seed := fs.Int64("seed", 1, "")
	idx := fs.Int("idx", 0, "")
	only := fs.Int("only", -1, "")
	_ = fs.Parse(args)
	ops := p.history(*seed, *idx)
	var out []sut.Outcome
	for i, op := range ops {
		if *only >= 0 && i != *only {
			out = append(out, sut.Outcome{})
			continue
		}
		out = append(out, op.Run(false))
	}
	b, _ := json.Marshal(out)
	os.Stdout.Write(b)
	return 0
}

func (p *c04) Run(w *lib.Worker, idx int, r *lib.Rand) lib.Case {
	ops := p.history(w.Seed, idx)
	kinds := map[string]int{}
	var rendered []byte
	for _, op := range ops {
		kinds[op.Kind]++
		b, _ := json.Marshal(op.Render())
		rendered = append(rendered, b...)
	}
	c := lib.Case{Hash: lib.Hash64(rendered)}
	// references from a fresh process
	out, err := lib.RunAux("C04", "-seed", strconv.FormatInt(w.Seed, 10), "-idx", strconv.Itoa(idx))
	if err != nil {
		c.Inconclusive = "reference process failed: " + err.Error()
		return c
	}
	var ref []sut.Outcome
	if err := json.Unmarshal(out, &ref); err != nil || len(ref) != len(ops) {
		c.Inconclusive = "reference output unreadable"
		return c
	}
	// a sample of references recomputed one call per process
	solo := 0
	for k := 0; k < 3; k++ {
		i := r.Intn(len(ops))
		o1, err := lib.RunAux("C04", "-seed", strconv.FormatInt(w.Seed, 10), "-idx", strconv.Itoa(idx), "-only", strconv.Itoa(i))
		var one []sut.Outcome
		if err != nil || json.Unmarshal(o1, &one) != nil || len(one) != len(ops) {
			c.Inconclusive = "solo reference process failed"
			return c
		}
		if one[i].Key() != ref[i].Key() {
			c.Viol = &lib.Violation{What: fmt.Sprintf("call %d alone in a fresh process differs from the same call inside the reference batch (non-recycling API): %s vs %s", i, one[i].Key(), ref[i].Key()), Detail: ops[i].Render()}
			return c
		}
		solo++
	}

	var reuses, borrows int64
	for _, mode := range []string{"poison", "no-poison", "gc-between-calls"} {
		validate.VerifReset()
		validate.VerifConfigure(validate.VerifConfig{Track: true, Poison: mode == "poison"})
		for i, op := range ops {
			if ref[i].Panic != "" {
				// a call which panics (the recorded dependency panic on unescaped member names) is outside
				// this property: what a panic leaves behind is property C11
				continue
			}
			got := op.Run(true)
			c.Evals++
			if mode == "gc-between-calls" && i%3 == 0 {
				runtime.GC()
				runtime.GC()
			}
			witness := func() map[string]any {
				prev := []any{}
				for j := i - 3; j < i; j++ {
					if j >= 0 {
						prev = append(prev, ops[j].Render())
					}
				}
				return map[string]any{"mode": mode, "call_index": i, "call": op.Render(), "recycling_outcome": got, "fresh_process_reference": ref[i], "previous_calls": prev, "history_length": len(ops)}
			}
			if got.Key() != ref[i].Key() {
				c.Viol = &lib.Violation{What: fmt.Sprintf("call %d (%s, mode %s) through the recycling entry point differs from the same call alone without recycling: got %s want %s", i, op.Kind, mode, short(got.Key()), short(ref[i].Key())), Detail: witness()}
				validate.VerifConfigure(validate.VerifConfig{})
				return c
			}
			if ft := op.ForeignTags(append(append([]string{}, got.Errors...), got.Warnings...)); len(ft) > 0 {
				c.Viol = &lib.Violation{What: fmt.Sprintf("call %d (%s, mode %s) reports something that belongs to another call or to a recycled object: %v", i, op.Kind, mode, ft), Detail: witness()}
				validate.VerifConfigure(validate.VerifConfig{})
				return c
			}
			if n := validate.VerifEventTotal(); n > 0 {
				st := validate.VerifSnapshot()
				w := witness()
				w["pool_events"] = st.Events
				c.Viol = &lib.Violation{What: fmt.Sprintf("pool discipline violated during call %d (%s, mode %s): %v", i, op.Kind, mode, st.EventCounts), Detail: w}
				validate.VerifConfigure(validate.VerifConfig{})
				return c
			}
		}
		st := validate.VerifSnapshot()
		for _, ps := range st.Pools {
			reuses += ps.Reuses
			borrows += ps.Borrows
		}
		if mode == "poison" {
			c.Nums = map[string]int64{"objects_poisoned": st.Poisoned}
			for name, ps := range st.Pools {
				c.Nums["borrows:"+name] += ps.Borrows
				c.Nums["reuses:"+name] += ps.Reuses
			}
		}
	}
	validate.VerifConfigure(validate.VerifConfig{})
	validate.VerifReset()
	c.Nums["pool_borrows"] = borrows
	c.Nums["pool_reuses"] = reuses
	c.Nums["solo_fresh_process_references"] = int64(solo)
	c.Nums["calls_in_histories"] = int64(len(ops))
	c.Nontrivial = reuses > 0 && len(kinds) >= 3
	for k := range kinds {
		c.Tags = append(c.Tags, "kind:"+k)
	}
	for _, op := range ops {
		if op.Early != "" {
			c.Tags = append(c.Tags, "early:"+op.Early)
		}
	}
	if idx%16 == 0 {
		c.Sample = map[string]any{"history_length": len(ops), "kinds": kinds, "first_calls": []any{ops[0].Render(), ops[1].Render(), ops[2].Render()}, "pool_reuses": reuses}
	}
	return c
}

func short(s string) string {
	if len(s) > 500 {
		return s[:500] + "…"
	}
	return s
}

func (p *c04) Finish(a *lib.Aggregate) (broken []string) {
	if a.Nums["pool_reuses"] == 0 {
		broken = append(broken, "the pools never re-used an object: recycling was not exercised")
	}
	for _, t := range []string{"SchemaValidator", "objectValidator", "schemaSliceValidator", "itemsValidator", "basicCommonValidator", "HeaderValidator", "ParamValidator", "basicSliceValidator", "numberValidator", "stringValidator", "schemaPropsValidator", "formatValidator", "typeValidator", "spec.Schema", "Result"} {
		if a.Nums["reuses:"+t] == 0 {
			broken = append(broken, "pool never re-used under poison: "+t)
		}
	}
	for _, e := range []string{"early:nil-data", "early:failed-number-conversion", "early:scalar-at-root"} {
		if a.Tags[e] == 0 {
			broken = append(broken, "early exit never exercised: "+e)
		}
	}
	return
}
