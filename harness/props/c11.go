package props

import (
	"encoding/json"
	"flag"
	"fmt"
	"os"
	"sort"
	"strconv"
	"strings"
	"time"

	"github.com/go-openapi/strfmt"
	"github.com/go-openapi/validate"

	"verif/harness/gen"
	"verif/harness/hist"
	"verif/harness/lib"
	"verif/harness/sut"
)

// C11 — a panic during one validation does not corrupt later validations.
type c11 struct{ base }

func init() {
	lib.Register(&c11{base{
		id: "C11", level: "fault_enumeration",
		technique: "runtime fault injection + self-differential monitor: a caller-supplied format checker panics at its k-th invocation, for EVERY k from 1 to the number of invocations K of the panic-free run of the workload (and the documented invalid-schema panic is raised at every depth the workload can place a dangling $ref); the caller recovers; then a follow-up history runs and every outcome is compared with its fresh-process reference while the pool hooks run the ownership automaton (double redeem, borrow of an owned object) and poison redeemed objects",
		rule:      "one case = one workload (12-24 calls through AgainstSchema, recycling schema / parameter / header validators and Spec, whose schemas, items and parameter defaults carry the panicking format under object / array / allOf / anyOf / oneOf / not / additionalProperties / dependencies parents, plus a long-lived non-recycling validator which is used across the panic and must afterwards still answer like a freshly built one) x every injection point k=1..K x a follow-up history of 60 calls (+ a whole-specification validation every 6th k); K is measured per workload and reported; distinct = FNV-64 of workload + k (each injection point is its own case: a workload with K checker invocations contributes K+1 distinct cases); non-trivial = the injected panic actually unwound a validation (was recovered by the caller) and the follow-up ran",
		assumptions: []string{
			"fault model: panics raised by the format checker or by the documented invalid-schema check, recovered by the caller; one panic per history",
			"fresh-process, non-recycling executions are the oracle for the follow-up calls",
			"every k reached by the workload is enumerated; workloads themselves are sampled",
		},
		quick: 30, thorough: 600,
	}})
}

func (p *c11) Init(w *lib.Worker) error { return nil }
func (p *c11) Chunk(string) int         { return 1 }
func (p *c11) CaseTimeout(string) int   { return 1200 }

// where a dangling reference can sit so that the invalid-schema panic is raised while parents are mid-validation
var c11DanglingPlacements = []struct{ name, schema, inst string }{
	{"properties", `{"type":"object","properties":{"a":{"type":"string"},"b":{"$ref":"#/definitions/nowhere"}}}`, `{"a":"x","b":1}`},
	{"items", `{"type":"array","items":{"$ref":"#/definitions/nowhere"}}`, `[1,2]`},
	{"tuple-items", `{"type":"array","items":[{"type":"integer"},{"$ref":"#/definitions/nowhere"}]}`, `[1,2]`},
	{"additionalProperties", `{"type":"object","additionalProperties":{"$ref":"#/definitions/nowhere"}}`, `{"z":1}`},
	{"patternProperties", `{"type":"object","patternProperties":{"^z":{"$ref":"#/definitions/nowhere"}}}`, `{"z":1}`},
	{"allOf", `{"allOf":[{"type":"object"},{"properties":{"a":{"$ref":"#/definitions/nowhere"}}}]}`, `{"a":1}`},
	{"anyOf", `{"anyOf":[{"type":"string"},{"properties":{"a":{"$ref":"#/definitions/nowhere"}}}]}`, `{"a":1}`},
	{"oneOf", `{"oneOf":[{"type":"string"},{"properties":{"a":{"$ref":"#/definitions/nowhere"}}}]}`, `{"a":1}`},
	{"not", `{"not":{"properties":{"a":{"$ref":"#/definitions/nowhere"}}}}`, `{"a":1}`},
	{"dependencies", `{"type":"object","dependencies":{"a":{"properties":{"b":{"$ref":"#/definitions/nowhere"}}}}}`, `{"a":1,"b":2}`},
	{"nested-3", `{"type":"object","properties":{"l1":{"type":"array","items":{"type":"object","properties":{"l3":{"$ref":"#/definitions/nowhere"}}}}}}`, `{"l1":[{"l3":1}]}`},
}

// bomb is the caller-supplied registry state.
type bomb struct {
	n, at int
	reg   strfmt.Registry
}

func newBomb() *bomb {
	b := &bomb{at: -1}
	b.reg = strfmt.NewFormats()
	var pw strfmt.Password
	b.reg.Add("boom", &pw, func(s string) bool {
		b.n++
		if b.n == b.at {
			panic(fmt.Sprintf("VERIF injected panic in format checker at invocation %d", b.n))
		}
		return len(s)%2 == 0
	})
	return b
}

func (p *c11) specDocs(r *lib.Rand, n int) [][]byte {
	var out [][]byte
	for i := 0; i < n; i++ {
		g := &gen.SpecGen{R: r, Tag: fmt.Sprintf("T%dQ", 800000+i)}
		tree := g.Clean()
		// parameters whose default goes through the panicking format, plain and under items
		paths := tree["paths"].(map[string]any)
		for _, pk := range []string{} {
			_ = pk
		}
		for pk := range paths {
			item := paths[pk].(map[string]any)
			for m := range item {
				op := item[m].(map[string]any)
				ps, _ := op["parameters"].([]any)
				ps = append(ps,
					map[string]any{"name": "bq", "in": "query", "type": "string", "format": "boom", "default": "ab"},
					map[string]any{"name": "bl", "in": "query", "type": "array", "items": map[string]any{"type": "string", "format": "boom", "default": "cd"}},
				)
				op["parameters"] = ps
			}
		}
		defs := tree["definitions"].(map[string]any)
		defs["Boom"+g.Tag] = map[string]any{"type": "object", "properties": map[string]any{"s": map[string]any{"type": "string", "format": "boom", "default": "ef"}}}
		out = append(out, gen.JSON(tree))
	}
	return out
}

// workload returns the calls during which the panic is injected, the follow-up calls, and for every follow-up call
// the index of the workload call it was derived from (-1: independent).
func (p *c11) workload(seed int64, idx int, b *bomb) (wl, follow []*hist.Op, origin []int) {
	r := lib.NewRand(seed, "C11", idx)
	docs := p.specDocs(r.Fork(), 2)
	n := r.Range(12, 24)
	wl = hist.Gen(r, n, idx*1000, hist.Options{SpecDocs: docs, SpecEvery: 10, FormatsFn: func() strfmt.Registry { return b.reg }, FormatName: "boom"})
	// make sure the checker is reached at least once, directly under the root
	wl = append(wl, &hist.Op{Kind: "against", Tag: fmt.Sprintf("T%dQ", idx*1000+400), Carrier: "float64", Formats: b.reg,
		Schema: []byte(`{"type":"string","format":"boom"}`), Inst: []byte(`"ab"`)})
	// ... and below objects which are mid-way through their properties when the checker panics: members with a
	// default which the instance omits (the validators keep per-call notes about those) next to members which
	// reach the checker, at the root, in a nested object and in array elements
	wl = append(wl, &hist.Op{Kind: []string{"against", "schema-recycled"}[idx%2], Tag: fmt.Sprintf("T%dQ", idx*1000+401), Carrier: "float64", Formats: b.reg,
		Schema: []byte(`{"type":"object","properties":{"id":{"type":"string","default":"none"},"n":{"type":"integer","default":1},"f1":{"type":"string","format":"boom"},"f2":{"type":"string","format":"boom"},
 "sub":{"type":"object","properties":{"owner":{"default":"x"},"a":{"default":2},"g1":{"type":"string","format":"boom"},"g2":{"type":"string","format":"boom"}}},
 "list":{"type":"array","items":{"type":"object","required":["k"],"properties":{"k":{"default":0},"b":{"default":true},"h":{"type":"string","format":"boom"}}}}}}`),
		Inst: []byte(`{"f1":"ab","f2":"cd","sub":{"g1":"ef","g2":"gh"},"list":[{"h":"ij"},{"h":"kl"}]}`)})
	// ... and under a root schema which carries an "id" (its own resolution scope; no $ref)
	wl = append(wl, &hist.Op{Kind: []string{"against", "schema-recycled"}[(idx/2)%2], Tag: fmt.Sprintf("T%dQ", idx*1000+402), Carrier: "float64", Formats: b.reg,
		Schema: []byte(`{"id":"http://example.com/c11.json","type":"object","required":["f"],"properties":{"f":{"type":"string","format":"boom"},"g":{"type":"string","format":"boom"},"n":{"type":"integer","maximum":3}}}`),
		Inst:   []byte(`{"f":"ab","g":"cd","n":5}`)})
	follow = hist.Gen(r, 60, idx*1000+500, hist.Options{})
	follow = append(follow, hist.Gen(r, 1, idx*1000+900, hist.Options{SpecDocs: hist.SpecDocs(r.Fork(), 2), SpecEvery: 1})...)
	derived, from := derivedFollowUps(wl, idx*1000+950, b.reg)
	origin = make([]int, len(follow), len(follow)+len(derived))
	for i := range origin {
		origin[i] = -1
	}
	follow, origin = append(follow, derived...), append(origin, from...)
	return
}

// derivedFollowUps builds follow-up calls out of the workload itself: state which an aborted validation leaves
// behind is most likely keyed by what that validation saw (member names, paths, constraints), so the calls
// which come after the recovered panic re-use the names and shapes of the calls which may have been aborted:
// the same call again, and a "mirror" schema which demands (required, no default) the members for which the
// workload schema declares a default, under anyOf / allOf alternatives and a nested object, on empty objects.
func derivedFollowUps(wl []*hist.Op, base int, reg strfmt.Registry) (out []*hist.Op, origin []int) {
	n := 0
	for wi, op := range wl {
		if (op.Kind != "against" && op.Kind != "schema-recycled") || len(op.Schema) == 0 || n >= 16 {
			continue
		}
		var doc any
		if json.Unmarshal(op.Schema, &doc) != nil {
			continue
		}
		names := map[string]bool{}
		var walk func(v any)
		walk = func(v any) {
			switch x := v.(type) {
			case map[string]any:
				if props, ok := x["properties"].(map[string]any); ok {
					for k, ps := range props {
						if pm, ok := ps.(map[string]any); ok {
							if _, has := pm["default"]; has {
								names[k] = true
							}
						}
					}
				}
				for _, e := range x {
					walk(e)
				}
			case []any:
				for _, e := range x {
					walk(e)
				}
			}
		}
		walk(doc)
		again := *op
		again.Tag = fmt.Sprintf("T%dQ", base+n)
		again.Formats = reg
		n++
		if len(names) == 0 {
			out = append(out, &again)
			origin = append(origin, wi)
			continue
		}
		var list []any
		for _, k := range sortedKeysBool(names) {
			list = append(list, k)
		}
		// every object validator of the mirror is sensitive to a left-over name, whichever of them borrows the
		// object the aborted validation left behind: the root and four nested objects demand every name (each at
		// its own path, so the messages are distinct), and one alternative per name sits under anyOf and allOf
		tag := fmt.Sprintf("T%dQ", base+n)
		req := func() map[string]any { return map[string]any{"type": "object", "required": list} }
		var alts []any
		for _, k := range list {
			alts = append(alts, map[string]any{"required": []any{k}})
		}
		if len(alts) == 1 {
			alts = append(alts, map[string]any{"required": []any{list[0]}}) // the same alternative twice: either may borrow the object
		}
		mirror := map[string]any{"type": "object", "required": list, "title": tag, "properties": map[string]any{
			"mirror0": req(), "mirror1": req(), "mirror2": req(), "mirror3": req(),
			"mirror4": map[string]any{"anyOf": alts}, "mirror5": map[string]any{"allOf": alts}, "mirror6": map[string]any{"oneOf": alts},
		}}
		out = append(out, &hist.Op{Kind: op.Kind, Tag: tag, Carrier: "float64", Formats: reg,
			Schema: gen.JSON(mirror), Inst: []byte(`{"mirror0":{},"mirror1":{},"mirror2":{},"mirror3":{},"mirror4":{},"mirror5":{},"mirror6":{}}`)})
		origin = append(origin, wi)
		// the same call again comes after its mirror (it would consume what was left behind without showing it)
		out = append(out, &again)
		origin = append(origin, wi)
		n++
	}
	return out, origin
}

func sortedKeysBool(m map[string]bool) []string {
	out := make([]string, 0, len(m))
	for k := range m {
		out = append(out, k)
	}
	sort.Strings(out)
	return out
}

// Aux: references of the follow-up history, computed in a fresh process through the non-recycling API.
func (p *c11) Aux(args []string) int {
	fs := flag.NewFlagSet("aux", flag.ExitOnError)
	seed := fs.Int64("seed", 1, "")
	idx := fs.Int("idx", 0, "")
	_ = fs.Parse(args)
	_, follow, _ := p.workload(*seed, *idx, newBomb())
	var out []sut.Outcome
	for _, op := range follow {
		out = append(out, op.Run(false))
	}
	bts, _ := json.Marshal(out)
	os.Stdout.Write(bts)
	return 0
}

func (p *c11) Run(w *lib.Worker, idx int, r *lib.Rand) lib.Case {
	sut.ResetPoolsOnPanic = false
	defer func() { sut.ResetPoolsOnPanic = true }()
	b := newBomb()
	wl, follow, origin := p.workload(w.Seed, idx, b)
	c := lib.Case{Nums: map[string]int64{}}
	out, err := lib.RunAux("C11", "-seed", strconv.FormatInt(w.Seed, 10), "-idx", strconv.Itoa(idx))
	var ref []sut.Outcome
	if err != nil || json.Unmarshal(out, &ref) != nil || len(ref) != len(follow) {
		c.Inconclusive = fmt.Sprintf("reference process failed: %v", err)
		return c
	}
	// a long-lived (non-recycling) validator which exists before the panic, is used while the checker may
	// panic, and must keep behaving like a freshly built one afterwards
	llSchema := []byte(`{"type":"object","properties":{"a":{"type":"string","format":"boom","maxLength":4}},"allOf":[{"properties":{"b":{"type":"string","format":"boom"}}},{"properties":{"c":{"type":"integer","maximum":5}}}],"anyOf":[{"properties":{"d":{"type":"string","format":"boom","minLength":2}}},{"required":["zz"]}],"not":{"properties":{"e":{"type":"string","format":"boom"}},"required":["e"]},"additionalProperties":{"type":"string","format":"boom"}}`)
	llValues := [][]byte{[]byte(`{"a":"ab","b":"cd","c":3,"d":"ef"}`), []byte(`{"a":"abcdef","c":9}`), []byte(`{"b":"x","d":"y","q":"abc"}`), []byte(`{"c":"no","e":"ab"}`), []byte(`{}`)}
	mkLL := func() *validate.SchemaValidator {
		s, _ := sut.Schema(llSchema)
		return validate.NewSchemaValidator(s, nil, "ll", b.reg)
	}
	runLL := func(v *validate.SchemaValidator, val []byte) sut.Outcome {
		return sut.Guard(func() sut.Outcome {
			x, _ := sut.Value(val)
			return sut.FromResult(v.Validate(x))
		})
	}
	// the panic-free run measures K
	validate.VerifReset()
	validate.VerifConfigure(validate.VerifConfig{Track: true, Poison: true})
	b.n, b.at = 0, -1
	for _, op := range wl {
		if o := op.Run(true); o.Panic != "" && !isSpecMarshalPanic(o.Panic, op.Schema) {
			c.Inconclusive = "the panic-free run of the workload panics: " + lib1(o.Panic)
			return c
		}
	}
	llRef := make([]string, len(llValues))
	{
		ll := mkLL()
		for i, v := range llValues {
			llRef[i] = runLL(ll, v).Key()
		}
	}
	K := b.n
	c.Nums["K_checker_invocations"] = int64(K)
	if K == 0 {
		c.Inconclusive = "the workload never reaches the format checker"
		return c
	}
	var rendered []byte
	for _, op := range wl {
		bb, _ := json.Marshal(op.Render())
		rendered = append(rendered, bb...)
	}
	c.Hash = lib.Hash64(rendered)

	recovered := 0
	for k := 1; k <= K; k++ {
		validate.VerifReset()
		validate.VerifConfigure(validate.VerifConfig{Track: true, Poison: k%2 == 0})
		b.n, b.at = 0, k
		panicAt := -1
		ll := mkLL()
		for i, op := range wl {
			o, returned := runWithin(c11CallBudget, func() sut.Outcome { return op.Run(true) })
			if !returned {
				// k-1 recovered panics happened in this process before (one per earlier k): a workload call which
				// blocks now is waiting for something one of those aborted validations left held
				c.Viol = &lib.Violation{What: fmt.Sprintf("after recovered panics (format checker invocations 1..%d of %d) workload call %d (%s) did not return within %v", k-1, K, i, op.Kind, c11CallBudget),
					Detail: map[string]any{"call": op.Render(), "k": k, "K": K}}
				return c
			}
			if strings.Contains(o.Panic, "VERIF injected panic") {
				panicAt = i
				break
			}
		}
		llPanicked := false
		if panicAt < 0 {
			// the remaining invocations belong to the long-lived validator
			for _, v := range llValues {
				if o := runLL(ll, v); strings.Contains(o.Panic, "VERIF injected panic") {
					panicAt = len(wl) - 1
					llPanicked = true
					break
				}
			}
		}
		b.at = -1
		// whatever happened, the long-lived validator must now answer like a freshly built one
		for rep := 0; rep < 2; rep++ {
			for i, v := range llValues {
				if got := runLL(ll, v).Key(); got != llRef[i] {
					c.Viol = &lib.Violation{What: fmt.Sprintf("after a recovered panic (checker invocation k=%d of %d; the long-lived validator itself panicked: %v) a long-lived validator answers %s on %s, a freshly built one answers %s", k, K, llPanicked, short(got), v, short(llRef[i])),
						Detail: map[string]any{"schema": string(llSchema), "value": string(v), "k": k, "long_lived_validator_panicked": llPanicked}}
					validate.VerifConfigure(validate.VerifConfig{})
					validate.VerifReset()
					return c
				}
			}
		}
		if llPanicked {
			c.Tags = append(c.Tags, "unwound:long-lived-validator")
		}
		if panicAt < 0 {
			c.Inconclusive = fmt.Sprintf("injection point k=%d was not reached although K=%d", k, K)
			return c
		}
		recovered++
		c.Hashes = append(c.Hashes, lib.Hash64(append(append([]byte{}, rendered...), byte(k), byte(k>>8))))
		if !llPanicked {
			c.Tags = append(c.Tags, "unwound:"+wl[panicAt].Kind)
		}
		// the caller recovered; every later validation must behave as in a fresh process; the calls derived from
		// the aborted call come first (what an aborted validation leaves behind is consumed by the next borrower)
		order := make([]int, 0, len(follow))
		for i := range follow {
			if origin[i] == panicAt {
				order = append(order, i)
			}
		}
		for i := range follow {
			if origin[i] != panicAt {
				order = append(order, i)
			}
		}
		for _, i := range order {
			op := follow[i]
			if ref[i].Panic != "" {
				continue
			}
			if op.Kind == "spec" && k%6 != 0 {
				continue
			}
			got, returned := runWithin(c11CallBudget, func() sut.Outcome { return op.Run(true) })
			c.Evals++
			if !returned {
				// bounded progress: a follow-up call takes milliseconds (a specification a second or two); one which
				// is still running after two minutes is waiting for something the aborted validation left held
				c.Viol = &lib.Violation{What: fmt.Sprintf("after a recovered panic (format checker invocation k=%d of %d, inside a %s call) follow-up call %d (%s) did not return within %v; its fresh-process outcome is %s", k, K, wl[panicAt].Kind, i, op.Kind, c11CallBudget, short(ref[i].Key())),
					Detail: map[string]any{"workload_call_which_panicked": wl[panicAt].Render(), "injection_point_k": k, "K": K, "follow_up_call_index": i, "follow_up_call": op.Render(), "fresh_process_reference": ref[i]}}
				return c
			}
			witness := map[string]any{
				"workload_call_which_panicked": wl[panicAt].Render(), "injection_point_k": k, "K": K, "poison": k%2 == 0,
				"follow_up_call_index": i, "follow_up_call": op.Render(), "outcome_after_recovered_panic": got, "fresh_process_reference": ref[i],
			}
			if got.Key() != ref[i].Key() {
				st := validate.VerifSnapshot()
				witness["pool_events"] = st.Events
				c.Viol = &lib.Violation{What: fmt.Sprintf("after a recovered panic (format checker invocation k=%d of %d, inside a %s call) follow-up call %d (%s) differs from its fresh-process outcome: got %s want %s; pool events so far: %v", k, K, wl[panicAt].Kind, i, op.Kind, short(got.Key()), short(ref[i].Key()), st.EventCounts), Detail: witness}
				validate.VerifConfigure(validate.VerifConfig{})
				validate.VerifReset()
				return c
			}
		}
		if n := validate.VerifEventTotal(); n > 0 {
			st := validate.VerifSnapshot()
			c.Viol = &lib.Violation{What: fmt.Sprintf("pool discipline violated after a recovered panic (k=%d of %d, inside a %s call): %v", k, K, wl[panicAt].Kind, st.EventCounts),
				Detail: map[string]any{"workload_call_which_panicked": wl[panicAt].Render(), "injection_point_k": k, "pool_events": st.Events}}
			validate.VerifConfigure(validate.VerifConfig{})
			validate.VerifReset()
			return c
		}
	}
	// second fault family: the documented invalid-schema panic, raised from every depth at which a
	// dangling $ref can sit, through both recycling schema entry points
	for pi, place := range c11DanglingPlacements {
		for _, kind := range []string{"against", "schema-recycled"} {
			validate.VerifReset()
			validate.VerifConfigure(validate.VerifConfig{Track: true, Poison: pi%2 == 0})
			for _, op := range wl[:3] {
				op.Run(true)
			}
			bad := &hist.Op{Kind: kind, Tag: "T0Q", Carrier: "float64", Formats: strfmt.Default, Schema: []byte(place.schema), Inst: []byte(place.inst)}
			o := bad.Run(true)
			if !sut.IsDocumentedSchemaPanic(o.Panic) {
				c.Inconclusive = fmt.Sprintf("dangling $ref placed at %s did not raise the documented panic: %+v", place.name, o)
				return c
			}
			recovered++
			c.Tags = append(c.Tags, "invalid-schema-panic:"+place.name)
			for i, op := range follow {
				if ref[i].Panic != "" || op.Kind == "spec" {
					continue
				}
				got := op.Run(true)
				c.Evals++
				if got.Key() != ref[i].Key() {
					st := validate.VerifSnapshot()
					c.Viol = &lib.Violation{What: fmt.Sprintf("after the recovered invalid-schema panic (dangling $ref under %s, %s) follow-up call %d (%s) differs from its fresh-process outcome: got %s want %s; pool events: %v", place.name, kind, i, op.Kind, short(got.Key()), short(ref[i].Key()), st.EventCounts),
						Detail: map[string]any{"schema": place.schema, "instance": place.inst, "follow_up_call": op.Render(), "outcome": got, "reference": ref[i], "pool_events": st.Events}}
					validate.VerifConfigure(validate.VerifConfig{})
					validate.VerifReset()
					return c
				}
			}
			if n := validate.VerifEventTotal(); n > 0 {
				st := validate.VerifSnapshot()
				c.Viol = &lib.Violation{What: fmt.Sprintf("pool discipline violated after the recovered invalid-schema panic (dangling $ref under %s, %s): %v", place.name, kind, st.EventCounts),
					Detail: map[string]any{"schema": place.schema, "instance": place.inst, "pool_events": st.Events}}
				validate.VerifConfigure(validate.VerifConfig{})
				validate.VerifReset()
				return c
			}
		}
	}
	validate.VerifConfigure(validate.VerifConfig{})
	validate.VerifReset()
	c.Nums["invalid_schema_panic_placements"] = int64(2 * len(c11DanglingPlacements))
	c.Nums["injection_points_enumerated"] = int64(K)
	c.Nums["panics_recovered"] = int64(recovered)
	c.Nontrivial = recovered == K+2*len(c11DanglingPlacements)
	// each injection point is a distinct fault case
	c.Nums["distinct_fault_cases"] = int64(K)
	if idx%10 == 0 {
		c.Sample = map[string]any{"workload_calls": len(wl), "K": K, "follow_up_calls": len(follow), "first_workload_call": wl[0].Render()}
	}
	return c
}

func (p *c11) Finish(a *lib.Aggregate) (broken []string) {
	if a.Nums["panics_recovered"] == 0 {
		broken = append(broken, "no injected panic was ever recovered")
	}
	for _, k := range []string{"unwound:against", "unwound:schema-recycled", "unwound:param", "unwound:header", "unwound:spec", "unwound:long-lived-validator"} {
		if a.Tags[k] == 0 {
			broken = append(broken, "no panic unwound a call of kind "+strings.TrimPrefix(k, "unwound:"))
		}
	}
	a.Extra["injection_points_enumerated"] = a.Nums["injection_points_enumerated"]
	return
}

// c11CallBudget bounds one follow-up call (wall clock, generous: three to five orders of magnitude above its cost).
const c11CallBudget = 2 * time.Minute

// runWithin runs f in its own goroutine and gives up waiting after d (the goroutine is left behind: the case ends).
func runWithin(d time.Duration, f func() sut.Outcome) (sut.Outcome, bool) {
	ch := make(chan sut.Outcome, 1)
	go func() { ch <- f() }()
	select {
	case o := <-ch:
		return o, true
	case <-time.After(d):
		return sut.Outcome{}, false
	}
}
