package props

import (
	"bytes"
	"encoding/json"
	"flag"
	"fmt"
	"os"
	"regexp"
	"sort"
	"strconv"
	"strings"

	"github.com/go-openapi/strfmt"
	"github.com/go-openapi/validate"

	"verif/harness/gen"
	"verif/harness/lib"
	"verif/harness/model"
	"verif/harness/sut"
)

// C10 — spec validation is deterministic, monotone, and keeps warnings apart.
type c10 struct {
	base
	fixtures map[string][]byte
	session  *sut.SpecSession
}

func init() {
	lib.Register(&c10{base: base{
		id: "C10", level: "exploration",
		technique: "runtime self-differential monitor across repetitions and processes: each document is validated repeatedly in one process (other validations in between), in several fresh processes (each with its own map-iteration seed), in both continue-on-errors modes and in three serialisations (JSON, YAML, shuffled member order); the normalised outcomes must coincide, stop-early errors must be a subset of continue-mode errors, the separately returned warnings must equal the attached ones, and warnings alone must not invalidate",
		rule: "documents: generated specifications with several simultaneous faults (an undefined required property in many definitions, one or two inheritance cycles, a duplicated inherited property in several children, operation-level faults), single-fault and clean ones, and repository fixtures; per document 2 in-process repetitions (other validations in between) + 2 repetitions on the same loaded document (accepted documents) + one long-lived validator object reused across all documents of the worker + 3 fresh processes, x 2 modes, + 2 alternative serialisations; distinct = FNV-64 of the document text; non-trivial = the document produces at least one error or warning (there is something that could vary)",
		assumptions: []string{
			"outcomes are compared as verdict + set of error messages + set of warning messages; a circular-ancestry message is reduced to the set of members of the cycle it names, as the property allows",
			"sampled documents; map-order dependence shows only if the runs happen to draw different orders (6+ independent orders per document are drawn)",
		},
		quick: 110, thorough: 2000,
	}})
}

func (p *c10) Init(w *lib.Worker) (err error) {
	p.fixtures, err = gen.FixtureDocs(model.RepoDir())
	return err
}

func (p *c10) Chunk(string) int       { return 5 }
func (p *c10) CaseTimeout(string) int { return 600 }

// doc builds the document tree of a case.
func (p *c10) doc(idx int, r *lib.Rand) (tree map[string]any, what []string) {
	if idx%5 == 4 && len(p.fixtures) > 0 {
		names := make([]string, 0, len(p.fixtures))
		for k := range p.fixtures {
			names = append(names, k)
		}
		sort.Strings(names)
		n := names[r.Intn(len(names))]
		v, _ := model.Parse(p.fixtures[n])
		t, _ := v.(map[string]any)
		return t, []string{"fixture:" + n}
	}
	g := &gen.SpecGen{R: r, Tag: fmt.Sprintf("d%d", idx%3), NoRefs: idx%7 == 3}
	tree = g.Clean()
	switch idx % 5 {
	case 0, 1, 2:
		what = g.ApplyMulti()
	case 3:
		f := gen.Faults[r.Intn(len(gen.Faults))]
		if ok, _ := g.Apply(f); ok {
			what = []string{f}
		}
	}
	return tree, what
}

var circRe = regexp.MustCompile(`^definition "([^"]*)" has circular ancestry: \[(.*)\]$`)

// cycleOf returns the sorted members of the inheritance cycle through definition name (allOf/$ref edges).
func cycleOf(tree map[string]any, name string) []string {
	defs, _ := tree["definitions"].(map[string]any)
	parents := func(n string) []string {
		d, _ := defs[n].(map[string]any)
		var out []string
		all, _ := d["allOf"].([]any)
		for _, a := range all {
			if m, ok := a.(map[string]any); ok {
				if ref, ok := m["$ref"].(string); ok && strings.HasPrefix(ref, "#/definitions/") {
					out = append(out, strings.TrimPrefix(ref, "#/definitions/"))
				}
			}
		}
		if ref, ok := d["$ref"].(string); ok && strings.HasPrefix(ref, "#/definitions/") {
			out = append(out, strings.TrimPrefix(ref, "#/definitions/"))
		}
		return out
	}
	reach := func(from string) map[string]bool {
		seen := map[string]bool{}
		var dfs func(n string)
		dfs = func(n string) {
			for _, q := range parents(n) {
				if !seen[q] {
					seen[q] = true
					dfs(q)
				}
			}
		}
		dfs(from)
		return seen
	}
	var members []string
	fromName := reach(name)
	for m := range fromName {
		if reach(m)[name] {
			members = append(members, m)
		}
	}
	if !fromName[name] {
		// name is not itself on a cycle: it only leads into one; identify the cycle(s) it reaches
		members = nil
		for m := range fromName {
			if reach(m)[m] {
				members = append(members, m)
			}
		}
	}
	sort.Strings(members)
	return members
}

func normMsgs(tree map[string]any, msgs []string) []string {
	out := make([]string, 0, len(msgs))
	for _, m := range msgs {
		if mm := circRe.FindStringSubmatch(m); mm != nil {
			m = fmt.Sprintf("circular ancestry among %v", cycleOf(tree, mm[1]))
		}
		out = append(out, m)
	}
	sort.Strings(out)
	// a set: the same cycle may be reported from two of its members
	var uniqd []string
	for i, m := range out {
		if i == 0 || m != out[i-1] {
			uniqd = append(uniqd, m)
		}
	}
	return uniqd
}

type c10Outcome struct {
	Mode string
	O    sut.SpecOutcome
}

func (p *c10) both(text []byte) []c10Outcome {
	var out []c10Outcome
	for _, cont := range []bool{false, true} {
		out = append(out, c10Outcome{Mode: fmt.Sprintf("continue=%v", cont), O: sut.ValidateSpec(text, sut.SpecOpts{Continue: cont, Strict: true})})
	}
	return out
}

// shuffledJSON renders the tree with object members in a seeded random order.
func shuffledJSON(r *lib.Rand, v any) []byte {
	var b bytes.Buffer
	var w func(v any)
	w = func(v any) {
		switch x := v.(type) {
		case map[string]any:
			keys := make([]string, 0, len(x))
			for k := range x {
				keys = append(keys, k)
			}
			sort.Strings(keys)
			r.Shuffle(len(keys), func(i, j int) { keys[i], keys[j] = keys[j], keys[i] })
			b.WriteByte('{')
			for i, k := range keys {
				if i > 0 {
					b.WriteByte(',')
				}
				kb, _ := json.Marshal(k)
				b.Write(kb)
				b.WriteByte(':')
				w(x[k])
			}
			b.WriteByte('}')
		case []any:
			b.WriteByte('[')
			for i, e := range x {
				if i > 0 {
					b.WriteByte(',')
				}
				w(e)
			}
			b.WriteByte(']')
		default:
			eb, _ := json.Marshal(x)
			b.Write(eb)
		}
	}
	w(v)
	return b.Bytes()
}

// Aux: `vh aux C10 -seed S -idx I` validates the document of that case in a fresh process and prints the outcomes.
func (p *c10) Aux(args []string) int {
	fs := flag.NewFlagSet("aux", flag.ExitOnError)
	seed := fs.Int64("seed", 1, "")
	idx := fs.Int("idx", 0, "")
	_ = fs.Parse(args)
	if err := p.Init(nil); err != nil {
		fmt.Fprintln(os.Stderr, err)
		return 2
	}
	tree, _ := p.doc(*idx, lib.NewRand(*seed, "C10", *idx))
	out := p.both(gen.JSON(tree))
	b, _ := json.Marshal(out)
	os.Stdout.Write(b)
	return 0
}

func (p *c10) Run(w *lib.Worker, idx int, r *lib.Rand) lib.Case {
	tree, what := p.doc(idx, r)
	if tree == nil {
		return lib.Case{Inconclusive: "no document"}
	}
	text := gen.JSON(tree)
	c := lib.Case{Hash: lib.Hash64(text)}
	for _, wh := range what {
		c.Tags = append(c.Tags, "planted:"+strings.SplitN(wh, "-in-", 2)[0])
	}
	key := func(o sut.SpecOutcome) string {
		return fmt.Sprintf("valid=%v panic=%q errors=%q warnings=%q", o.Valid, o.Panic, normMsgs(tree, o.Errors), normMsgs(tree, o.Warnings))
	}
	sample := map[string]any{"document": string(text), "planted": what}
	fail := func(what string, extra any) lib.Case {
		sample["observed"] = extra
		c.Viol = &lib.Violation{What: what, Detail: sample}
		return c
	}

	// a TWIN document is validated first in this process: generated like this one (same kind, same definition,
	// path, operation and parameter names) from another random stream, so its content differs.  Whatever the library
	// keeps beyond a validation under such names (a memo of resolved references, of parameters per operation, ...)
	// now belongs to the twin; the fresh processes below validate this document alone.
	var twin []byte
	if tt, _ := p.doc(idx, lib.NewRand(w.Seed, "C10-twin", idx)); tt != nil {
		twin = gen.JSON(tt)
		for _, cont := range []bool{false, true} {
			_ = sut.ValidateSpec(twin, sut.SpecOpts{Continue: cont, Strict: true})
		}
		c.Evals += 2
	}
	first := p.both(text)
	c.Evals += 2
	if !first[0].O.Loaded {
		return lib.Case{Tags: []string{"does-not-load"}}
	}
	for i, f := range first {
		if knownC07Panic(f.O, i == 1, text) {
			// the recorded C07 finding: nothing to compare for this document
			return lib.Case{Tags: []string{"skipped:known-C07-panic"}}
		}
		if f.O.Panic != "" {
			c.Inconclusive = "panic (see C07): " + lib1(f.O.Panic)
			return c
		}
	}
	stop, cont := first[0].O, first[1].O
	c.Nontrivial = len(cont.Errors)+len(cont.Warnings) > 0
	c.Tags = append(c.Tags, boolTag("valid", cont.Valid), boolTag("has-warnings", len(cont.Warnings) > 0))

	// monotone: every stop-early error is also reported when continuing
	contSet := map[string]bool{}
	for _, e := range normMsgs(tree, cont.Errors) {
		contSet[e] = true
	}
	for _, e := range normMsgs(tree, stop.Errors) {
		if !contSet[e] {
			return fail(fmt.Sprintf("an error reported when stopping early is not reported with continue-on-errors: %q", e), first)
		}
	}
	if stop.Valid != cont.Valid {
		return fail("the verdict depends on continue-on-errors", first)
	}
	// warnings kept apart
	for _, f := range first {
		if fmt.Sprint(normMsgs(tree, f.O.Warnings)) != fmt.Sprint(normMsgs(tree, f.O.Separate)) {
			return fail(fmt.Sprintf("the separately returned warnings differ from the warnings attached to the main result (%s): %q vs %q", f.Mode, f.O.Separate, f.O.Warnings), first)
		}
		if (len(f.O.Errors) == 0) != f.O.Valid {
			return fail("validity is not the absence of errors", first)
		}
	}
	if len(cont.Errors) == 0 && len(cont.Warnings) > 0 {
		c.Tags = append(c.Tags, "warnings-only")
		doc, _ := sut.LoadSpec(text)
		if err := validate.Spec(doc, strfmt.Default); err != nil {
			return fail("warnings alone made Spec() fail: "+err.Error(), first)
		}
	}

	// a validator object which has validated other documents before must judge this one like a fresh validator
	if p.session == nil {
		p.session = sut.NewSpecSession()
	}
	for i, cont := range []bool{false, true} {
		if twin != nil {
			// first the twin, then a copy of this very document with other content under the same names, with the
			// same validator object
			_ = p.session.Validate(twin, sut.SpecOpts{Continue: cont, Strict: true})
			_ = p.session.Validate(gen.JSON(gen.TwinOf(r.Fork(), tree)), sut.SpecOpts{Continue: cont, Strict: true})
			c.Evals += 2
		}
		ro := p.session.Validate(text, sut.SpecOpts{Continue: cont, Strict: true})
		c.Evals++
		if ro.Panic != "" {
			return fail("panic in a reused SpecValidator: "+ro.Panic, ro)
		}
		if key(ro) != key(first[i].O) {
			return fail(fmt.Sprintf("a SpecValidator which validated other documents before returns another outcome than a fresh one (%s): %s  vs fresh: %s", first[i].Mode, key(ro), key(first[i].O)), []any{first, ro})
		}
	}
	// the same LOADED document (one *loads.Document) validated repeatedly with fresh validators.
	// Only for documents the library accepts: C12 allows validation to rewrite the parsed form of a
	// document it rejects (it does, when references do not resolve), and a rewritten document is not
	// "the same document" any more.
	if doc, err := sut.LoadSpec(text); err == nil && cont.Valid {
		for rep := 0; rep < 2; rep++ {
			for i, cont := range []bool{false, true} {
				o := sut.ValidateDoc(doc, sut.SpecOpts{Continue: cont, Strict: true})
				c.Evals++
				if key(o) != key(first[i].O) {
					what := fmt.Sprintf("validating the same loaded document again (repetition %d, %s) gives another outcome: %s  vs first: %s", rep, first[i].Mode, key(o), key(first[i].O))
					if o.Panic == "" && o.Valid == first[i].O.Valid && refWithValueSibling(tree) && onlyValueMessagesDiffer(o, first[i].O) {
						// recorded finding: a $ref node with a sibling example / default is replaced, in the caller's parsed
						// document, by what it refers to when its value is judged; the next validation of that loaded
						// document finds another node there and judges the value differently (or not at all)
						c.Known = []string{"ref-sibling-value-judged-on-the-callers-document-once"}
						c.KnownWhat = what
						c.Sample = sample
						return c
					}
					return fail(what, []any{first, o})
				}
			}
		}
	}
	// repetitions in the same process, other validations in between
	other := gen.JSON((&gen.SpecGen{R: r.Fork(), Tag: "other"}).Clean())
	for rep := 0; rep < 2; rep++ {
		if rep == 1 && twin != nil {
			other = twin
		}
		_ = sut.ValidateSpec(other, sut.SpecOpts{Continue: rep%2 == 0, Strict: true})
		again := p.both(text)
		c.Evals += 3
		for i := range again {
			if key(again[i].O) != key(first[i].O) {
				return fail(fmt.Sprintf("repetition %d in the same process differs (%s): %s  vs first: %s", rep, again[i].Mode, key(again[i].O), key(first[i].O)), []any{first, again})
			}
		}
	}
	// fresh processes
	for proc := 0; proc < 3; proc++ {
		out, err := lib.RunAux("C10", "-seed", strconv.FormatInt(w.Seed, 10), "-idx", strconv.Itoa(idx))
		if err != nil {
			c.Inconclusive = "fresh process failed: " + err.Error()
			return c
		}
		var remote []c10Outcome
		if err := json.Unmarshal(out, &remote); err != nil || len(remote) != 2 {
			c.Inconclusive = "fresh process output unreadable"
			return c
		}
		c.Evals += 2
		for i := range remote {
			if key(remote[i].O) != key(first[i].O) {
				return fail(fmt.Sprintf("a fresh process returned another outcome (%s): %s  vs: %s", remote[i].Mode, key(remote[i].O), key(first[i].O)), []any{first, remote})
			}
		}
	}
	c.Nums = map[string]int64{"fresh_processes": 3, "in_process_repetitions": 2}
	// serialisation variants
	variants := map[string][]byte{"shuffled-members": shuffledJSON(r, tree)}
	if y, err := gen.YAML(tree); err == nil {
		variants["yaml"] = y
	}
	for _, name := range []string{"shuffled-members", "yaml"} {
		vt, ok := variants[name]
		if !ok {
			continue
		}
		alt := p.both(vt)
		c.Evals += 2
		if !alt[0].O.Loaded {
			c.Tags = append(c.Tags, "variant-does-not-load:"+name)
			continue
		}
		for i := range alt {
			if key(alt[i].O) != key(first[i].O) {
				return fail(fmt.Sprintf("serialisation variant %s gives another outcome (%s): %s  vs: %s", name, alt[i].Mode, key(alt[i].O), key(first[i].O)), []any{first, alt})
			}
		}
		c.Tags = append(c.Tags, "variant:"+name)
	}
	if idx%40 == 0 {
		sample["errors_continue"] = cont.Errors
		sample["errors_stop_early"] = stop.Errors
		c.Sample = sample
	}
	return c
}

func (p *c10) Finish(a *lib.Aggregate) (broken []string) {
	if a.Nums["fresh_processes"] == 0 {
		broken = append(broken, "no fresh-process repetition was observed")
	}
	if a.Tags["variant:yaml"] == 0 || a.Tags["variant:shuffled-members"] == 0 {
		broken = append(broken, "serialisation variants were not exercised")
	}
	if a.Tags["valid:no"] == 0 {
		broken = append(broken, "no invalid document: nothing could vary")
	}
	return
}

// refWithValueSibling tells whether the document holds an object with a $ref and an example or default beside it.
func refWithValueSibling(v any) bool {
	switch x := v.(type) {
	case map[string]any:
		if _, isRef := x["$ref"].(string); isRef {
			_, e := x["example"]
			_, d := x["default"]
			if e || d {
				return true
			}
		}
		for _, e := range x {
			if refWithValueSibling(e) {
				return true
			}
		}
	case []any:
		for _, e := range x {
			if refWithValueSibling(e) {
				return true
			}
		}
	}
	return false
}

// onlyValueMessagesDiffer: every message which one outcome has and the other lacks speaks about an example or a
// default value (its path runs through ".example" / ".default", or it is the "does not validate its schema" line).
func onlyValueMessagesDiffer(a, b sut.SpecOutcome) bool {
	count := map[string]int{}
	for _, m := range append(append([]string{}, a.Errors...), a.Warnings...) {
		count[m]++
	}
	for _, m := range append(append([]string{}, b.Errors...), b.Warnings...) {
		count[m]--
	}
	n := 0
	for m, k := range count {
		if k == 0 {
			continue
		}
		n++
		if !(strings.Contains(m, ".example") || strings.Contains(m, ".default") || strings.Contains(m, "example value") || strings.Contains(m, "default value")) {
			return false
		}
	}
	return n > 0
}
