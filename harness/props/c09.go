package props

import (
	"fmt"
	"sort"
	"strings"

	"github.com/go-openapi/strfmt"

	"verif/harness/gen"
	"verif/harness/lib"
	"verif/harness/sut"
)

// C09 — spec defaults and examples are judged exactly as their schema judges them.
type c09 struct {
	base
	session, altSession *sut.SpecSession
}

func init() {
	lib.Register(&c09{base: base{
		id: "C09", level: "exploration",
		technique: "runtime single-fault differential monitor: into a clean generated specification one default (or example) is planted at a chosen location, once with a value its own schema accepts and once with a value it rejects; the real SpecValidator runs on the base, the good and the bad twin and the monitor demands: bad default => error, bad example => additional warning, good value => no error and no additional warning",
		rule: "locations: definitions, inline body-parameter and response schemas at depth 0-4 through properties / items / tuple items / additionalProperties / allOf members; simple parameters and response headers and their nested items; per-media-type response examples; member, parameter and definition names drawn from a pool which includes names equal to (the tail of) their ancestors; distinct = FNV-64 of the bad twin's text; non-trivial = distinct (location kind chain, depth, default-or-example) shapes are counted through tags; every case is non-trivial (it plants a fault)",
		assumptions: []string{
			"the planted leaf schema is {type: integer, maximum: 5}: 3 (or 0) is accepted, 7 and \"x\" are rejected; one case in five plants a leaf whose rejected value is the zero value of its kind ({type:integer,minimum:1} <- 0, {type:string,minLength:1} <- \"\", {type:boolean,enum:[true]} <- false) or whose accepted value is ({type:string,maxLength:3} <- \"\") — simple enough that no recorded C01 finding interferes; every fourth case plants {type: string, format: x-even} instead and validates with a caller-supplied registry which alone knows that format (\"ab\" accepted, \"abc\" rejected)",
			"the generator is the oracle for where the value sits; no message text is parsed",
			"sampled locations",
		},
		quick: 420, thorough: 6000,
	}})
}

func (p *c09) Init(w *lib.Worker) error { return nil }
func (p *c09) Chunk(string) int         { return 12 }

var c09Names = []string{"a", "t", "s", "id", "name", "item", "default", "x1", "Pet", "prop", "e", "et", "allOf", "n"}

// isVisitedBySuffix is the recorded visited-path heuristic (default_validator.go:46-73) applied to one dotted path.
func isVisitedBySuffix(path string) bool {
	for i := len(path) - 2; i >= 0; i-- {
		if path[i] != '.' {
			continue
		}
		if strings.HasSuffix(path[0:i], path[i+1:]) {
			return true
		}
	}
	return false
}

type c09Plant struct {
	kind     string // default | example
	where    string // description
	chain    []string
	skipped  bool // some path on the way to the location is "visited" for the heuristic
	leafKind     string
	headerTop    bool   // the planted default sits on a response header itself (not on its items)
	knownMissing string // recorded finding which explains a planted bad value that is NOT reported at this location ("" none)
	setValue func(v any)
	remove   func()
}

// nest builds a schema containing `leaf` at the end of a chain of depth steps, and the dotted
// paths the validators construct for every schema on the way (suffix added by the schema's validator).
func (p *c09) nest(r *lib.Rand, rootPath string, depth int, leaf map[string]any, forExample bool) (schema map[string]any, paths []string, chain []string) {
	// top-down construction of step kinds
	type st struct {
		kind  string
		name  string
		idx   int
		extra int
	}
	steps := make([]st, depth)
	for i := range steps {
		switch r.Intn(5) {
		case 0, 1:
			steps[i] = st{kind: "properties", name: c09Names[r.Intn(len(c09Names))]}
		case 2:
			steps[i] = st{kind: "items"}
		case 3:
			steps[i] = st{kind: "tuple", idx: r.Range(0, 1), extra: r.Range(0, 1)}
		default:
			if r.Bool() {
				steps[i] = st{kind: "additionalProperties"}
			} else {
				steps[i] = st{kind: "allOf", idx: r.Range(0, 1)}
			}
		}
	}
	suffix := "default"
	if forExample {
		suffix = "example"
	}
	path := rootPath
	paths = []string{path}
	for _, s := range steps {
		switch s.kind {
		case "properties":
			path = path + "." + s.name
		case "items":
			path = path + ".items." + suffix
		case "tuple":
			path = fmt.Sprintf("%s.items[%d].%s", path, s.idx, suffix)
		case "additionalProperties":
			path = path + ".additionalProperties"
		case "allOf":
			path = fmt.Sprintf("%s.allOf[%d]", path, s.idx)
		}
		paths = append(paths, path)
		chain = append(chain, s.kind)
	}
	schema = leaf
	for i := depth - 1; i >= 0; i-- {
		s := steps[i]
		switch s.kind {
		case "properties":
			schema = map[string]any{"type": "object", "properties": map[string]any{s.name: schema, fmt.Sprintf("zz9_%d", i): map[string]any{"type": "string"}}}
		case "items":
			schema = map[string]any{"type": "array", "items": schema}
		case "tuple":
			// tuples of 1 to 3 members, the planted one at s.idx
			t := make([]any, s.idx+1+s.extra)
			for k := range t {
				t[k] = map[string]any{"type": "string"}
			}
			t[s.idx] = schema
			schema = map[string]any{"type": "array", "items": t}
		case "additionalProperties":
			schema = map[string]any{"type": "object", "additionalProperties": schema}
		case "allOf":
			// filler members get names unique to their depth: inherited property names must not repeat
			all := []any{map[string]any{"type": "object", "properties": map[string]any{fmt.Sprintf("zz8_%d", i): map[string]any{"type": "string"}}}, map[string]any{"type": "object", "properties": map[string]any{fmt.Sprintf("zz7_%d", i): map[string]any{"type": "string"}}}}
			all[s.idx] = schema
			schema = map[string]any{"allOf": all}
		}
	}
	return schema, paths, chain
}

func anySkipped(paths []string) bool {
	for _, p := range paths {
		if isVisitedBySuffix(p) {
			return true
		}
	}
	return false
}

// newLeaf is the planted leaf schema: {type: integer, maximum: 5} ("int"); for the cases which run with the
// caller-supplied alternative registry {type: string, format: x-even}, a format only that registry knows ("fmt");
// and {type: object, maxProperties: 1} ("obj"), whose accepted value {"type":"array"} looks like a schema.
func newLeaf(kind string) map[string]any {
	switch kind {
	case "fmt":
		return map[string]any{"type": "string", "format": "x-even"}
	case "obj":
		return map[string]any{"type": "object", "maxProperties": gen.I(1)}
	case "zint":
		return map[string]any{"type": "integer", "minimum": gen.I(1)}
	case "zstr":
		return map[string]any{"type": "string", "minLength": gen.I(1)}
	case "zbool":
		return map[string]any{"type": "boolean", "enum": []any{true}}
	case "estr":
		return map[string]any{"type": "string", "maxLength": gen.I(3)}
	}
	return map[string]any{"type": "integer", "maximum": gen.I(5)}
}

// leafValues gives a value the leaf accepts, one it rejects, and an accepted sibling for array defaults.
func leafValues(kind string, r *lib.Rand) (good, bad, sibling any) {
	switch kind {
	case "fmt":
		return "ab", "abc", "cd"
	case "obj":
		return map[string]any{"type": "array"}, map[string]any{"a": gen.I(1), "b": gen.I(2)}, map[string]any{}
	case "zint":
		// the rejected value is the zero value of its kind
		return gen.I(3), gen.I(0), gen.I(2)
	case "zstr":
		return "ab", "", "c"
	case "zbool":
		return true, false, true
	case "estr":
		// the ACCEPTED value is the zero value of its kind
		return "", "abcd", "s"
	}
	bad = any(gen.I(7))
	if r.Bool() {
		bad = "x"
	}
	good = gen.I(3)
	if r.P(0.3) {
		good = gen.I(0)
	}
	return good, bad, gen.I(1)
}

func (p *c09) plant(r *lib.Rand, g *gen.SpecGen, doc map[string]any, leafKind string, variant int) *c09Plant {
	fmtLeaf := leafKind
	leaf := newLeaf(leafKind)
	sibling := func() any { _, _, sb := leafValues(fmtLeaf, r); return sb }
	forExample := r.P(0.4)
	key := "default"
	if forExample {
		key = "example"
	}
	pl := &c09Plant{kind: key, leafKind: leafKind}
	pl.setValue = func(v any) { leaf[key] = v }
	pl.remove = func() { delete(leaf, key) }
	paths, _ := doc["paths"].(map[string]any)
	// pick an operation to host parameter / response plants
	var opNode map[string]any
	var opNodes []map[string]any
	var opPaths []string
	for _, pk := range sortedKeysAny(paths) {
		item := paths[pk].(map[string]any)
		for _, m := range []string{"post", "put", "get", "delete"} {
			if o, ok := item[m].(map[string]any); ok {
				opNodes = append(opNodes, o)
				opPaths = append(opPaths, pk)
			}
		}
	}
	pick := r.Intn(len(opNodes))
	kind := r.Intn(9) // which location class gets the plant (drawn here: response-schema plants choose their operation)
	stripP := 0.5
	if kind == 4 {
		// a response-schema plant prefers an operation whose path has no placeholder, and mostly makes it an operation
		// without parameters and response headers: nothing then re-initialises the validators' per-location state
		// between the response visited before and this one
		for i, pth := range opPaths {
			if !strings.Contains(pth, "{") {
				pick = i
				break
			}
		}
		stripP = 0.85
	}
	opNode = opNodes[pick]
	if !strings.Contains(opPaths[pick], "{") && r.P(stripP) {
		// an operation without any parameter and without response headers (nothing resets the
		// validators' per-location state between the previous operation and this response)
		delete(opNode, "parameters")
		delete(opNode, "consumes")
		for _, rv := range opNode["responses"].(map[string]any) {
			if rm, ok := rv.(map[string]any); ok {
				delete(rm, "headers")
			}
		}
	}
	params := func() []any { ps, _ := opNode["parameters"].([]any); return ps }
	resp200 := opNode["responses"].(map[string]any)["200"].(map[string]any)
	depth := r.Range(0, 4)
	switch k := kind; {
	case k <= 2:
		// a definition
		dn := []string{"Pet", "a", "Tags", "Dx", "t", "Items", "name"}[r.Intn(7)]
		schema, ps, chain := p.nest(r, "definitions."+dn, depth, leaf, forExample)
		doc["definitions"].(map[string]any)[dn] = schema
		pl.where, pl.chain, pl.skipped = "definition "+dn, append([]string{"definition"}, chain...), anySkipped(ps)
	case k == 3:
		// inline body parameter schema (replace body/form parameters of the operation)
		name := []string{"body", "a.a", "payload", "t", "x.y", "e"}[r.Intn(6)]
		schema, ps, chain := p.nest(r, name, depth, leaf, forExample)
		var out []any
		for _, q := range params() {
			if m, _ := q.(map[string]any); m["in"] != "body" && m["in"] != "formData" {
				out = append(out, q)
			}
		}
		delete(opNode, "consumes")
		opNode["parameters"] = append(out, map[string]any{"name": name, "in": "body", "schema": schema})
		pl.where, pl.chain, pl.skipped = "body parameter "+name, append([]string{"body-param"}, chain...), anySkipped(ps)
	case k == 4:
		// inline response schema
		schema, ps, chain := p.nest(r, "200", depth, leaf, forExample)
		delete(resp200, "examples")
		resp200["schema"] = schema
		pl.where, pl.chain, pl.skipped = "response 200 schema", append([]string{"response-schema"}, chain...), anySkipped(ps)
	case k == 5 || k == 6:
		// simple parameter, possibly through nested items
		if fmtLeaf == "obj" {
			fmtLeaf, pl.leafKind = "int", "int"
		}
		if fmtLeaf == "int" && r.P(0.5) {
			// simple-schema locations: half of the integer leaves become a leaf whose rejected / accepted value is the
			// zero value of its kind (0, "", false): these validators have value-dependent early exits
			fmtLeaf = []string{"zint", "zstr", "zbool", "estr"}[r.Intn(4)]
			pl.leafKind = fmtLeaf
		}
		if forExample {
			// examples are not allowed on simple parameters by the Swagger schema: use the response example instead
			resp200["schema"] = map[string]any{"type": "object", "properties": map[string]any{"v": newLeaf(fmtLeaf)}}
			mk := func(v any) any { return map[string]any{"v": v} }
			pl.kind = "example"
			pl.where, pl.chain = "response 200 examples[application/json]", []string{"response-examples"}
			pl.setValue = func(v any) { resp200["examples"] = map[string]any{"application/json": mk(v)} }
			pl.remove = func() { delete(resp200, "examples") }
			return pl
		}
		d := r.Range(0, 3)
		var node map[string]any = newLeaf(fmtLeaf)
		target := node
		for i := 0; i < d; i++ {
			node = map[string]any{"type": "array", "items": node}
		}
		node["name"] = []string{"q1", "a.a", "limit2", "t"}[r.Intn(4)]
		node["in"] = r.Pick("query", "header", "formData")
		if variant == 1 {
			// a later parameter of the same location whose name differs but maps to the same Go identifier
			node["name"] = "user_id"
		}
		if node["in"] == "formData" {
			var out []any
			for _, q := range params() {
				if m, _ := q.(map[string]any); m["in"] != "body" {
					out = append(out, q)
				}
			}
			opNode["parameters"] = out
		}
		switch {
		case variant == 1:
			opNode["parameters"] = append(params(), node, map[string]any{"name": "userId", "in": node["in"], "type": "integer", "default": gen.I(0)})
			pl.knownMissing = "go-name-collision-drops-parameter"
		case variant == 2 && !g.NoRefs:
			// the parameter lives in the top-level parameters section and the operation refers to it
			doc["parameters"].(map[string]any)["Planted"+g.Tag] = node
			opNode["parameters"] = append(params(), map[string]any{"$ref": "#/parameters/Planted" + g.Tag})
		case variant == 3:
			// ... or nothing refers to it
			doc["parameters"].(map[string]any)["Planted"+g.Tag] = node
			pl.knownMissing = "unreferenced-shared-parameter-or-response-not-visited"
		default:
			opNode["parameters"] = append(params(), node)
		}
		pl.where, pl.chain = fmt.Sprintf("simple parameter, items depth %d", d), []string{"simple-param", fmt.Sprintf("items*%d", d), fmt.Sprintf("variant%d", variant)}
		pl.setValue = func(v any) { target["default"] = v }
		pl.remove = func() { delete(target, "default") }
		if d >= 1 && r.Bool() {
			// the default sits on the parameter itself: an array value nested d deep around the leaf value
			top := node
			pl.where, pl.chain = fmt.Sprintf("simple parameter, array default nested %d deep", d), []string{"simple-param", fmt.Sprintf("array-default*%d", d), fmt.Sprintf("variant%d", variant)}
			pl.setValue = func(v any) { top["default"] = wrapArray(v, d, sibling()) }
			pl.remove = func() { delete(top, "default") }
		}
	default:
		// response header, possibly through nested items
		if fmtLeaf == "obj" {
			fmtLeaf, pl.leafKind = "int", "int"
		}
		if fmtLeaf == "int" && r.P(0.5) {
			// simple-schema locations: half of the integer leaves become a leaf whose rejected / accepted value is the
			// zero value of its kind (0, "", false): these validators have value-dependent early exits
			fmtLeaf = []string{"zint", "zstr", "zbool", "estr"}[r.Intn(4)]
			pl.leafKind = fmtLeaf
		}
		if forExample {
			resp200["schema"] = map[string]any{"type": "array", "items": newLeaf(fmtLeaf)}
			pl.kind = "example"
			pl.where, pl.chain = "response 200 examples[application/json] (array)", []string{"response-examples"}
			pl.setValue = func(v any) { resp200["examples"] = map[string]any{"application/json": []any{v}} }
			pl.remove = func() { delete(resp200, "examples") }
			return pl
		}
		d := r.Range(0, 3)
		var node map[string]any = newLeaf(fmtLeaf)
		target := node
		for i := 0; i < d; i++ {
			node = map[string]any{"type": "array", "items": node}
		}
		host := resp200
		switch {
		case variant == 2 && !g.NoRefs:
			// the header lives in a response of the top-level responses section which the operation refers to
			host = map[string]any{"description": "planted shared response"}
			doc["responses"].(map[string]any)["Planted"+g.Tag] = host
			opNode["responses"].(map[string]any)["404"] = map[string]any{"$ref": "#/responses/Planted" + g.Tag}
		case variant == 3:
			// ... or which nothing refers to
			host = map[string]any{"description": "planted shared response"}
			doc["responses"].(map[string]any)["Planted"+g.Tag] = host
			pl.knownMissing = "unreferenced-shared-parameter-or-response-not-visited"
		}
		h, _ := host["headers"].(map[string]any)
		if h == nil {
			h = map[string]any{}
			host["headers"] = h
		}
		h["X-Planted"] = node
		pl.where, pl.chain = fmt.Sprintf("response header, items depth %d", d), []string{"header", fmt.Sprintf("items*%d", d), fmt.Sprintf("variant%d", variant)}
		pl.headerTop = d == 0
		pl.setValue = func(v any) { target["default"] = v }
		pl.remove = func() { delete(target, "default") }
		if d >= 1 && r.Bool() {
			top := node
			pl.headerTop = false
			pl.where, pl.chain = fmt.Sprintf("response header, array default nested %d deep", d), []string{"header", fmt.Sprintf("array-default*%d", d), fmt.Sprintf("variant%d", variant)}
			pl.setValue = func(v any) { top["default"] = wrapArray(v, d, sibling()) }
			pl.remove = func() { delete(top, "default") }
		}
	}
	return pl
}

func sortedKeysAny(m map[string]any) []string {
	out := make([]string, 0, len(m))
	for k := range m {
		out = append(out, k)
	}
	sort.Strings(out)
	return out
}

func subset(a, b []string) (missing []string) {
	set := map[string]bool{}
	for _, x := range b {
		set[x] = true
	}
	for _, x := range a {
		if !set[x] {
			missing = append(missing, x)
		}
	}
	return
}

func (p *c09) Run(w *lib.Worker, idx int, r *lib.Rand) lib.Case {
	if p.session == nil {
		p.session = sut.NewSpecSession()
	}
	g := &gen.SpecGen{R: r, Tag: fmt.Sprintf("e%d", idx%6), NoRefs: idx%3 == 2}
	doc := g.Clean()
	// every fourth case: the planted schema carries a format which only a caller-supplied registry knows,
	// and the specification is validated with that registry (NewSpecValidator(schema, formats))
	leafKind := "int"
	switch {
	case idx%4 == 3:
		leafKind = "fmt"
	case idx%7 == 5:
		leafKind = "obj" // schema locations only; a value which looks like a schema
	case idx%5 == 1:
		// leaves whose rejected (zint, zstr, zbool) or accepted (estr) value is the zero value of its kind
		leafKind = []string{"zint", "zstr", "zbool", "estr"}[r.Intn(4)]
	}
	fmtLeaf := leafKind == "fmt"
	formats, session := strfmt.Registry(strfmt.Default), p.session
	if fmtLeaf {
		if p.altSession == nil {
			p.altSession = sut.NewSpecSession()
			p.altSession.Formats = altRegistry()
		}
		formats, session = altRegistry(), p.altSession
	}
	// location variants of simple parameters and headers: 1 = a sibling whose name maps to the same Go identifier,
	// 2 = in the top-level parameters / responses section and referred to, 3 = there and referred to by nothing
	variant := 0
	if idx%3 == 1 {
		variant = 1 + (idx/3)%3
	}
	pl := p.plant(r, g, doc, leafKind, variant)
	leafKind = pl.leafKind
	cfg := sut.SpecOpts{Continue: idx%2 == 0, Strict: true}
	pl.remove()
	baseText := gen.JSON(doc)
	goodValue, bad, _ := leafValues(leafKind, r)
	pl.setValue(goodValue)
	goodText := gen.JSON(doc)
	pl.setValue(bad)
	badText := gen.JSON(doc)

	c := lib.Case{Hash: lib.Hash64(badText), Nontrivial: true, Evals: 3}
	c.Tags = []string{"plant:" + pl.kind, "chain:" + strings.Join(pl.chain, ">"), fmt.Sprintf("continue:%v", cfg.Continue), boolTag("suffix-skipped", pl.skipped), boolTag("format-leaf-under-alternative-registry", fmtLeaf), "leaf:" + leafKind}
	var underDefault *sut.SpecOutcome
	if fmtLeaf {
		// the same document under strfmt.Default first: the planted format is unknown there and must not be asserted
		// (and having been asked about that name must not influence the caller-supplied registry afterwards)
		o := sut.ValidateSpecWith(badText, cfg, strfmt.Default)
		underDefault = &o
	}
	base, good, badO := sut.ValidateSpecWith(baseText, cfg, formats), sut.ValidateSpecWith(goodText, cfg, formats), sut.ValidateSpecWith(badText, cfg, formats)
	sample := map[string]any{"where": pl.where, "kind": pl.kind, "chain": pl.chain, "bad_value": bad, "document_with_bad_value": string(badText), "config": fmt.Sprintf("%+v", cfg)}
	if idx%100 == 0 {
		c.Sample = sample
	}
	for _, o := range []sut.SpecOutcome{base, good, badO} {
		if !o.Loaded {
			c.Inconclusive = "generated document does not load: " + o.LoadErr
			return c
		}
		if o.Panic != "" {
			c.Viol = &lib.Violation{What: "panic: " + o.Panic, Detail: sample}
			return c
		}
	}
	if !base.Valid {
		c.Inconclusive = fmt.Sprintf("construction error: the base document has errors: %v", base.Errors)
		c.Sample = sample
		return c
	}
	fail := func(what string, extra any) lib.Case {
		sample["observed"] = extra
		if missing := strings.Contains(what, "rejected by its own schema"); missing && pl.knownMissing != "" && !pl.skipped {
			c.Known = []string{pl.knownMissing}
			c.KnownWhat = fmt.Sprintf("%s at %s (%s): %s", pl.kind, pl.where, strings.Join(pl.chain, ">"), what)
			c.Sample = sample
			return c
		}
		if spurious := strings.Contains(what, "accepted by its schema"); spurious && leafKind == "estr" && pl.headerTop && pl.kind == "default" && pl.knownMissing == "" && !pl.skipped {
			// the accepted default "" of a string header is reported as "required" (recorded for C16 as well)
			c.Known = []string{"header-empty-string-required"}
			c.KnownWhat = fmt.Sprintf("%s at %s (%s): %s: %v", pl.kind, pl.where, strings.Join(pl.chain, ">"), what, extra)
			c.Sample = sample
			return c
		}
		if spurious := strings.Contains(what, "accepted by its schema"); spurious && leafKind == "obj" {
			c.Known = []string{"swagger-prechecks-applied-to-default-and-example-values"}
			c.KnownWhat = fmt.Sprintf("%s at %s (%s): %s: %v", pl.kind, pl.where, strings.Join(pl.chain, ">"), what, extra)
			c.Sample = sample
			return c
		}
		if missing := strings.Contains(what, "was not reported as an error") || strings.Contains(what, "raised no warning"); pl.skipped && missing {
			// the heuristic can only make a location be skipped: it explains a MISSING report, never a spurious one
			c.Known = []string{"visited-suffix-heuristic"}
			c.KnownWhat = fmt.Sprintf("%s at %s (%s): %s", pl.kind, pl.where, strings.Join(pl.chain, ">"), what)
			c.Sample = sample
			return c
		}
		c.Viol = &lib.Violation{What: fmt.Sprintf("%s [%s at %s, chain %s, %+v] doc=%s", what, pl.kind, pl.where, strings.Join(pl.chain, ">"), cfg, badText), Detail: sample}
		return c
	}
	if underDefault != nil && base.Valid && !pl.skipped && (underDefault.Panic != "" || !underDefault.Valid) {
		sample["under_strfmt_Default"] = *underDefault
		c.Viol = &lib.Violation{What: fmt.Sprintf("a format which the supplied registry (strfmt.Default) does not know was asserted: errors=%v panic=%q doc=%s", underDefault.Errors, underDefault.Panic, badText), Detail: sample}
		return c
	}
	// the same judgement from a validator object which has validated other documents before
	// (that validator has just seen a copy of this document with other content under the same names)
	_ = session.Validate(gen.JSON(gen.TwinOf(lib.NewRand(int64(idx), "C09-twin", idx), doc)), cfg)
	if reused := session.Validate(badText, cfg); reused.Panic != "" || reused.Key() != badO.Key() {
		c.Evals++
		{
			sample["reused_validator_outcome"] = reused
			c.Viol = &lib.Violation{What: fmt.Sprintf("a SpecValidator which validated other documents before judges the planted %s differently from a fresh one: fresh=%v reused=%v (panic=%q) [%s at %s] doc=%s", pl.kind, badO.Errors, reused.Errors, reused.Panic, pl.kind, pl.where, badText), Detail: sample}
			return c
		}
	}
	// a value the schema accepts: no error, no additional warning
	if !good.Valid {
		return fail("a default/example accepted by its schema produced errors", good.Errors)
	}
	if extra := subset(good.Warnings, base.Warnings); len(extra) > 0 {
		return fail("a default/example accepted by its schema produced additional warnings", extra)
	}
	if pl.kind == "default" {
		if badO.Valid {
			return fail("a default rejected by its own schema was not reported as an error", badO)
		}
	} else {
		if !badO.Valid {
			return fail("an example rejected by its schema made the document invalid (it must only warn)", badO.Errors)
		}
		if extra := subset(badO.Warnings, base.Warnings); len(extra) == 0 {
			return fail("an example rejected by its own schema raised no warning", badO.Warnings)
		}
	}
	// every fifth case: a second plant of the other kind elsewhere in the same document (a default its schema
	// rejects AND an example its schema rejects): the error of the one must not hide the warning of the other
	if idx%5 == 4 && !pl.skipped && pl.knownMissing == "" && leafKind != "obj" {
		other := "example"
		if pl.kind == "example" {
			other = "default"
		}
		secLeaf := map[string]any{"type": "integer", "maximum": gen.I(5)}
		doc["definitions"].(map[string]any)["Sec"+g.Tag] = map[string]any{"type": "object", "properties": map[string]any{"qq": secLeaf}}
		defLeafSet := func(v any) { secLeaf[other] = v }
		// document 1: the default is bad, the example is good; document 2: both are bad
		setDefault, setExample := pl.setValue, defLeafSet
		if pl.kind == "example" {
			setDefault, setExample = defLeafSet, pl.setValue
		}
		goodV, badV := any(gen.I(3)), any(gen.I(7))
		goodP, badP := goodValue, bad // values for the primary plant
		val := func(primary bool, good bool) any {
			if primary {
				if good {
					return goodP
				}
				return badP
			}
			if good {
				return goodV
			}
			return badV
		}
		setDefault(val(pl.kind == "default", false))
		setExample(val(pl.kind == "example", true))
		onlyDefaultBad := gen.JSON(doc)
		setExample(val(pl.kind == "example", false))
		bothBad := gen.JSON(doc)
		o1, o2 := sut.ValidateSpecWith(onlyDefaultBad, cfg, formats), sut.ValidateSpecWith(bothBad, cfg, formats)
		c.Evals += 2
		c.Tags = append(c.Tags, "dual-plant:bad-default-and-bad-example")
		sample["document_with_bad_default_and_bad_example"] = string(bothBad)
		if o1.Panic != "" || o2.Panic != "" {
			c.Viol = &lib.Violation{What: "panic: " + o1.Panic + o2.Panic, Detail: sample}
			return c
		}
		if o2.Valid {
			c.Viol = &lib.Violation{What: fmt.Sprintf("a default rejected by its schema was not reported as an error when the document also holds a rejected example [%+v] doc=%s", cfg, bothBad), Detail: sample}
			return c
		}
		if extra := subset(o2.Warnings, o1.Warnings); len(extra) == 0 {
			c.Viol = &lib.Violation{What: fmt.Sprintf("an example rejected by its schema raised no warning when the document also holds a rejected default [%+v, primary %s at %s] doc=%s", cfg, pl.kind, pl.where, bothBad), Detail: sample}
			return c
		}
	}
	return c
}

func (p *c09) Finish(a *lib.Aggregate) (broken []string) {
	chains := 0
	for k := range a.Tags {
		if strings.HasPrefix(k, "chain:") {
			chains++
		}
	}
	if chains < 25 {
		broken = append(broken, fmt.Sprintf("only %d distinct location chains exercised", chains))
	}
	if a.Tags["plant:default"] == 0 || a.Tags["plant:example"] == 0 {
		broken = append(broken, "defaults or examples never planted")
	}
	return
}

// wrapArray nests a value d levels deep in one-element arrays (with a valid sibling at the innermost level).
func wrapArray(v any, d int, sibling any) any {
	var out any = []any{sibling, v}
	for i := 1; i < d; i++ {
		out = []any{out}
	}
	return out
}
