package props

import (
	"fmt"
	"time"

	"github.com/go-openapi/spec"

	"github.com/go-openapi/strfmt"
	"github.com/go-openapi/validate"

	"verif/harness/gen"
	"verif/harness/lib"
	"verif/harness/sut"
)

// C08 — long-lived validators are stateless: reuse gives identical results.
type c08 struct{ base }

func init() {
	lib.Register(&c08{base{
		id: "C08", level: "exploration",
		technique: "runtime self-differential monitor: a validator built once (no recycling) is driven through a random sequence of values with repeats; every outcome (verdict + message set) is compared online with a freshly built validator on the same value and with the earlier outcome for the same value; also two validators built from one shared *spec.Schema used alternately, and parameter / header validators",
		rule: "one case = one validator (schema from the draft-4 grammar incl. $ref, or a simple-schema parameter / header) and a sequence of 20-120 calls over 6-14 values (schema-derived valid and invalid, other kinds, arrays of different lengths) with repeats; distinct = FNV-64 of the definition and the value sequence; non-trivial = the sequence mixes valid and invalid outcomes and repeats at least one value",
		assumptions: []string{"outcomes are compared as verdict + sorted message multiset (order is map-iteration dependent by design)", "sampled sequences"},
		quick: 6000, thorough: 200000,
	}})
}

func (p *c08) Init(w *lib.Worker) error { return nil }

func (p *c08) Run(w *lib.Worker, idx int, r *lib.Rand) lib.Case {
	if idx%12 == 5 {
		return p.typed(idx, r)
	}
	if idx%4 == 3 {
		return p.simple(idx, r)
	}
	g := &gen.SchemaGen{R: r, O: gen.SchemaOpts{MaxDepth: 3, Refs: true, SpecialNames: true, Defaults: idx%2 == 0}}
	doc := g.Document()
	st := gen.JSON(doc)
	nvals := r.Range(6, 14)
	vals := make([][]byte, nvals)
	for i := range vals {
		switch r.Intn(3) {
		case 0:
			vals[i] = gen.JSON(g.Instance(doc, doc, 0, 0.3))
		case 1:
			vals[i] = gen.JSON(g.Instance(doc, doc, 0, 0))
		default:
			vals[i] = gen.JSON(g.FreeValue(3))
		}
	}
	ncalls := r.Range(20, 120)
	if idx%8 == 6 {
		ncalls = r.Range(300, 700) // long sequences: something which accumulates a little per call needs many calls to show
	}
	// one case in three hands the values over as a decoder with UseNumber does (json.Number leaves)
	useNumber := idx%3 == 1
	decode := func(text []byte) any {
		if useNumber {
			v, _ := decodeNumber(text)
			return v
		}
		v, _ := sut.Value(text)
		return v
	}
	seq := make([]int, ncalls)
	for i := range seq {
		seq[i] = r.Intn(nvals)
	}
	h := append([]byte{}, st...)
	for _, s := range seq {
		h = append(h, vals[s]...)
	}
	c := lib.Case{Hash: lib.Hash64(h), Evals: 2 * ncalls}
	sample := map[string]any{"schema": string(st), "calls": ncalls, "values": nvals}

	// the long-lived validators: one alone, and two built from one shared schema object
	var long, twinA, twinB *validate.SchemaValidator
	o := sut.Guard(func() sut.Outcome {
		s1, _ := sut.Schema(st)
		long = validate.NewSchemaValidator(s1, nil, "root", strfmt.Default)
		s2, _ := sut.Schema(st)
		twinA = validate.NewSchemaValidator(s2, nil, "root", strfmt.Default)
		twinB = validate.NewSchemaValidator(s2, nil, "root", strfmt.Default)
		return sut.Outcome{Valid: true}
	})
	if o.Panic != "" {
		if isSpecMarshalPanic(o.Panic, st) {
			return lib.Case{Tags: []string{"skipped:spec-marshal"}}
		}
		c.Viol = &lib.Violation{What: "panic building a validator: " + o.Panic, Detail: sample}
		return c
	}
	first := map[int]string{}
	sawValid, sawInvalid, repeated := false, false, false
	for n, vi := range seq {
		it := vals[vi]
		run := func(v *validate.SchemaValidator) sut.Outcome {
			return sut.Guard(func() sut.Outcome {
				return sut.FromResult(v.Validate(decode(it)))
			})
		}
		got := run(long)
		var twin sut.Outcome
		if n%2 == 0 {
			twin = run(twinA)
		} else {
			twin = run(twinB)
		}
		fresh := sut.Guard(func() sut.Outcome {
			fs, _ := sut.Schema(st)
			return sut.FromResult(validate.NewSchemaValidator(fs, nil, "root", strfmt.Default).Validate(decode(it)))
		})
		if got.Key() != fresh.Key() || twin.Key() != fresh.Key() {
			sample["call"] = n
			sample["value"] = string(it)
			sample["long_lived"], sample["twin"], sample["fresh"] = got, twin, fresh
			c.Viol = &lib.Violation{What: fmt.Sprintf("call %d of a long-lived validator differs from a freshly built validator: value=%s schema=%s", n, it, st), Detail: sample}
			return c
		}
		if prev, ok := first[vi]; ok {
			repeated = true
			if prev != got.Key() {
				sample["call"], sample["value"] = n, string(it)
				c.Viol = &lib.Violation{What: fmt.Sprintf("repeating a call returned something else: value=%s schema=%s", it, st), Detail: sample}
				return c
			}
		} else {
			first[vi] = got.Key()
		}
		if got.Valid {
			sawValid = true
		} else {
			sawInvalid = true
		}
	}
	c.Nontrivial = sawValid && sawInvalid && repeated
	c.Tags = []string{"schema-validator", boolTag("mixed", sawValid && sawInvalid)}
	if idx%2000 == 0 {
		c.Sample = sample
	}
	return c
}

// simple drives parameter and header validators.
func (p *c08) simple(idx int, r *lib.Rand) lib.Case {
	sg := &gen.SimpleGen{R: r}
	def := sg.Definition(2)
	nvals := r.Range(6, 12)
	vals := make([]any, nvals)
	for i := range vals {
		vals[i] = sg.Value(def, 0.3)
	}
	ncalls := r.Range(20, 80)
	isHeader := idx%8 == 7
	c := lib.Case{Evals: 2 * ncalls}
	h := []byte(fmt.Sprintf("%v|%+v", isHeader, def))
	var pv *validate.ParamValidator
	var hv *validate.HeaderValidator
	if isHeader {
		hv = validate.NewHeaderValidator("X-H", sg.Header(def), strfmt.Default)
	} else {
		pv = validate.NewParamValidator(sg.Param(def, "p", "query"), strfmt.Default)
	}
	first := map[int]string{}
	sawValid, sawInvalid, repeated := false, false, false
	for n := 0; n < ncalls; n++ {
		vi := r.Intn(nvals)
		v := vals[vi]
		h = append(h, byte(vi))
		var got, fresh sut.Outcome
		if isHeader {
			got = sut.Guard(func() sut.Outcome { return sut.FromResult(hv.Validate(v)) })
			fresh = sut.Guard(func() sut.Outcome {
				return sut.FromResult(validate.NewHeaderValidator("X-H", sg.Header(def), strfmt.Default).Validate(v))
			})
		} else {
			got = sut.Guard(func() sut.Outcome { return sut.FromResult(pv.Validate(v)) })
			fresh = sut.Guard(func() sut.Outcome {
				return sut.FromResult(validate.NewParamValidator(sg.Param(def, "p", "query"), strfmt.Default).Validate(v))
			})
		}
		sample := map[string]any{"definition": fmt.Sprintf("%+v", def), "header": isHeader, "call": n, "value": fmt.Sprintf("%T(%v)", v, v), "long_lived": got, "fresh": fresh}
		if got.Key() != fresh.Key() {
			c.Viol = &lib.Violation{What: fmt.Sprintf("call %d of a long-lived parameter/header validator differs from a fresh one: %T(%v) def=%+v", n, v, v, def), Detail: sample}
			return c
		}
		if prev, ok := first[vi]; ok {
			repeated = true
			if prev != got.Key() {
				c.Viol = &lib.Violation{What: fmt.Sprintf("repeating a call returned something else: %T(%v) def=%+v", v, v, def), Detail: sample}
				return c
			}
		} else {
			first[vi] = got.Key()
		}
		if got.Valid {
			sawValid = true
		} else {
			sawInvalid = true
		}
	}
	c.Hash = lib.Hash64(h)
	c.Nontrivial = sawValid && sawInvalid && repeated
	c.Tags = []string{"simple-validator", boolTag("header", isHeader)}
	return c
}

// c08TypedValues are Go values as a program binds them (not decoded from JSON): several of them share a
// reflect.Kind while the library infers different JSON types or formats for them, and the other way round.
func c08TypedValues() []any {
	three := 3
	return []any{
		int64(3), int32(3), uint8(3), 3.0, float32(3), "3", "abc", "2020-01-31", true,
		strfmt.Duration(3 * time.Second), strfmt.Date(time.Date(2020, 1, 31, 0, 0, 0, 0, time.UTC)), strfmt.DateTime(time.Date(2020, 1, 31, 10, 0, 0, 0, time.UTC)),
		strfmt.UUID("a8098c1a-f86e-11da-bd1a-00112444be1e"), strfmt.Email("a@b.co"), strfmt.URI("http://example.com/a"), strfmt.Hostname("example.com"),
		strfmt.Base64("YWJj"), []byte("abc"), []interface{}{int64(1), int64(2)}, []int64{1, 2}, []string{"a", "b"}, []interface{}{"a", 1.5},
		map[string]interface{}{"a": int64(1)}, struct{ A int }{1}, &three, time.Duration(3), [2]int{1, 2},
	}
}

// typed drives long-lived schema, parameter and header validators with typed Go values.
func (p *c08) typed(idx int, r *lib.Rand) lib.Case {
	schemas := []string{
		`{"type":"integer"}`, `{"type":"number","maximum":5}`, `{"type":"string"}`, `{"type":"string","format":"date"}`, `{"type":"string","format":"duration"}`,
		`{"type":"string","format":"byte"}`, `{"type":"array","items":{"type":"integer"}}`, `{"type":"object"}`, `{"type":["integer","string"]}`, `{"enum":[3,"abc"]}`,
		`{"type":"string","format":"uuid","minLength":3}`, `{"type":"boolean"}`, `{}`,
	}
	st := []byte(schemas[r.Intn(len(schemas))])
	kind := []string{"schema", "param", "header"}[idx/12%3]
	pool := c08TypedValues()
	ncalls := r.Range(20, 60)
	c := lib.Case{Evals: 2 * ncalls, Tags: []string{"typed-values", "validator:" + kind}}
	var sv *validate.SchemaValidator
	var pv *validate.ParamValidator
	var hv *validate.HeaderValidator
	mkParam := func() *spec.Parameter {
		var sch spec.Schema
		_ = sch.UnmarshalJSON(st)
		prm := spec.QueryParam("p")
		if len(sch.Type) > 0 {
			prm.Type = sch.Type[0]
		} else {
			prm.Type = "string"
		}
		prm.Format = sch.Format
		prm.Maximum, prm.MinLength, prm.Enum = sch.Maximum, sch.MinLength, sch.Enum
		if prm.Type == "array" {
			prm.Items = spec.NewItems().Typed("integer", "")
		}
		if prm.Type == "object" {
			prm.Type = "string"
		}
		return prm
	}
	mkHeader := func() *spec.Header {
		prm := mkParam()
		h := spec.ResponseHeader()
		h.Type, h.Format, h.Items = prm.Type, prm.Format, prm.Items
		h.Maximum, h.MinLength, h.Enum = prm.Maximum, prm.MinLength, prm.Enum
		return h
	}
	build := func() {
		switch kind {
		case "schema":
			sch, _ := sut.Schema(st)
			sv = validate.NewSchemaValidator(sch, nil, "root", strfmt.Default)
		case "param":
			pv = validate.NewParamValidator(mkParam(), strfmt.Default)
		default:
			hv = validate.NewHeaderValidator("X-H", mkHeader(), strfmt.Default)
		}
	}
	if o := sut.Guard(func() sut.Outcome { build(); return sut.Outcome{Valid: true} }); o.Panic != "" {
		c.Viol = &lib.Violation{What: "panic building a validator: " + o.Panic}
		return c
	}
	long := func(v any) sut.Outcome {
		return sut.Guard(func() sut.Outcome {
			switch kind {
			case "schema":
				return sut.FromResult(sv.Validate(v))
			case "param":
				return sut.FromResult(pv.Validate(v))
			default:
				return sut.FromResult(hv.Validate(v))
			}
		})
	}
	fresh := func(v any) sut.Outcome {
		return sut.Guard(func() sut.Outcome {
			switch kind {
			case "schema":
				sch, _ := sut.Schema(st)
				return sut.FromResult(validate.NewSchemaValidator(sch, nil, "root", strfmt.Default).Validate(v))
			case "param":
				return sut.FromResult(validate.NewParamValidator(mkParam(), strfmt.Default).Validate(v))
			default:
				return sut.FromResult(validate.NewHeaderValidator("X-H", mkHeader(), strfmt.Default).Validate(v))
			}
		})
	}
	h := append([]byte(kind), st...)
	first := map[int]string{}
	distinctKeys := map[string]bool{}
	for n := 0; n < ncalls; n++ {
		vi := r.Intn(len(pool))
		v := pool[vi]
		h = append(h, byte(vi))
		fr := fresh(v)
		if fr.Panic != "" {
			continue // a value the validator cannot take at all is outside the claim; it must not disturb later calls either
		}
		got := long(v)
		if got.Key() != fr.Key() {
			c.Viol = &lib.Violation{What: fmt.Sprintf("call %d of a long-lived %s validator on a typed value differs from a freshly built one: %T(%v) schema=%s: long-lived %s, fresh %s", n, kind, v, v, st, got.Key(), fr.Key()),
				Detail: map[string]any{"schema": string(st), "validator": kind, "call": n, "value": fmt.Sprintf("%T(%v)", v, v), "long_lived": got, "fresh": fr}}
			return c
		}
		if prev, ok := first[vi]; ok && prev != got.Key() {
			c.Viol = &lib.Violation{What: fmt.Sprintf("repeating a call returned something else: %T(%v) schema=%s", v, v, st)}
			return c
		}
		first[vi] = got.Key()
		distinctKeys[got.Key()] = true
	}
	c.Hash = lib.Hash64(h)
	c.Nontrivial = len(distinctKeys) >= 2
	return c
}
