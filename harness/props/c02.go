package props

import (
	"bufio"
	"encoding/json"
	"flag"
	"fmt"
	"math/bits"
	"os"
	"sort"
	"strings"

	"github.com/go-openapi/loads"
	"github.com/go-openapi/strfmt"
	"github.com/go-openapi/validate"

	"verif/harness/gen"
	"verif/harness/lib"
	"verif/harness/model"
	"verif/harness/sut"
)

// C02 — an accepted Swagger document always satisfies the Swagger 2.0 JSON schema.
type c02 struct {
	base
	fixtures map[string][]byte
}

func init() {
	lib.Register(&c02{base: base{
		id: "C02", level: "exploration",
		technique: "runtime reference-model monitor: every loadable mutated specification is validated by the real SpecValidator (both continue-on-errors modes, and through validate.Spec) and, independently, its raw JSON is judged against the official Swagger 2.0 JSON schema by the draft-4 reference model; a document the model rejects must carry at least one error",
		rule: "documents as in C07 (generated specifications and fixtures with 1-3 structural edits, some rendered as YAML); the model gets doc.Raw(); distinct = FNV-64 of the document text; non-trivial = the document loads and the model rejects it (the implication has a true premise) or an edit touched it",
		assumptions: []string{
			"the vendored Swagger 2.0 schema text is checked at start-up to be the schema the library validates with; the draft-4 model is self-checked against the labelled suite",
			"one direction only, as the property states: schema-invalid => at least one error",
			"sampled input space",
		},
		quick: 1200, thorough: 16000,
	}})
}

func (p *c02) Init(w *lib.Worker) (err error) {
	if err = initModel(); err != nil {
		return err
	}
	if err = model.CheckVendoredSwaggerSchema(); err != nil {
		return err
	}
	p.fixtures, err = gen.FixtureDocs(model.RepoDir())
	return err
}

func (p *c02) Chunk(string) int { return 20 }

// MaxStack: as C07 (same document source).
func (p *c02) MaxStack() int { return 32 << 20 }

func explainSwagger(raw any) []string {
	n := len(model.EmuNames)
	masks := []int{}
	for m := 1; m < 1<<n; m++ {
		masks = append(masks, m)
	}
	sort.Slice(masks, func(i, j int) bool {
		if a, b := bits.OnesCount(uint(masks[i])), bits.OnesCount(uint(masks[j])); a != b {
			return a < b
		}
		return masks[i] < masks[j]
	})
	for _, m := range masks {
		c := model.SwaggerCtx(model.EmuFromMask(m))
		if c.Valid(model.Swagger20, raw) && !c.Unresolved {
			var keys []string
			for i, name := range model.EmuNames {
				if m&(1<<i) != 0 {
					if !c.Fired[name] {
						keys = nil
						break
					}
					keys = append(keys, name)
				}
			}
			if keys != nil {
				return keys
			}
		}
	}
	return nil
}

func (p *c02) Run(w *lib.Worker, idx int, r *lib.Rand) lib.Case {
	text, edits, base := mutatedDoc(idx, r, p.fixtures)
	if text == nil {
		return lib.Case{Inconclusive: "base document does not parse"}
	}
	c := lib.Case{Hash: lib.Hash64(text), Tags: []string{"base:" + base}}
	doc, err := sut.LoadSpec(text)
	if err != nil {
		c.Tags = append(c.Tags, "does-not-load")
		return c
	}
	raw, perr := model.Parse(doc.Raw())
	if perr != nil {
		c.Inconclusive = "doc.Raw() is not JSON: " + perr.Error()
		return c
	}
	mc := model.SwaggerCtx(model.Emu{})
	schemaValid := mc.Valid(model.Swagger20, raw)
	if mc.Unresolved {
		c.Inconclusive = "the model could not resolve a reference of the Swagger schema"
		return c
	}
	c.Tags = append(c.Tags, boolTag("schema-valid", schemaValid))
	c.Nontrivial = !schemaValid || len(edits) > 0
	accepted := ""
	var outcomes []any
	if docHasCompositionCycle(text) {
		// recorded C07 finding: with continue-on-errors such a document may kill the process (runaway recursion)
		c.Tags = append(c.Tags, "skipped:known-C07-composition-cycle")
		return c
	}
	for _, cont := range []bool{false, true} {
		o := sut.ValidateDoc(reload(text), sut.SpecOpts{Continue: cont, Strict: true})
		outcomes = append(outcomes, o)
		c.Evals++
		if o.Panic != "" {
			if knownC07Panic(o, cont, text) || knownC07IdPanic(o, text) {
				c.Tags = append(c.Tags, "skipped:known-C07-panic")
				return c
			}
			c.Inconclusive = "panic (see C07): " + lib1(o.Panic)
			return c
		}
		if o.Valid && accepted == "" {
			accepted = fmt.Sprintf("SpecValidator(continue-on-errors=%v)", cont)
		}
	}
	// the option which tells the validators not to record schemata must not change what is accepted
	if o := sut.ValidateDoc(reload(text), sut.SpecOpts{Continue: idx%2 == 0, Strict: true, SkipSchemata: true}); o.Panic == "" {
		outcomes = append(outcomes, o)
		c.Evals++
		if o.Valid && accepted == "" {
			accepted = fmt.Sprintf("SpecValidator(continue-on-errors=%v, SkipSchemataResult)", idx%2 == 0)
		}
	}
	so := sut.Guard(func() sut.Outcome { return sut.FromError(validate.Spec(reload(text), strfmt.Default)) })
	c.Evals++
	if so.Panic == "" && so.Valid && accepted == "" {
		accepted = "validate.Spec"
	}
	c.Tags = append(c.Tags, boolTag("accepted", accepted != ""))
	sample := map[string]any{"document": string(text), "edits": edits, "base": base, "swagger_schema_valid": schemaValid, "accepted_by": accepted}
	if idx%400 == 0 {
		c.Sample = sample
	}
	if schemaValid || accepted == "" {
		return c
	}
	sample["outcomes"] = outcomes
	if keys := explainSwagger(raw); keys != nil {
		c.Known = keys
		c.KnownWhat = fmt.Sprintf("accepted by %s although it violates the Swagger 2.0 schema; edits=%v", accepted, edits)
		c.Sample = sample
		return c
	}
	c.Viol = &lib.Violation{What: fmt.Sprintf("document violates the Swagger 2.0 JSON schema but %s reports no error; edits=%v base=%s", accepted, edits, base), Detail: sample}
	return c
}

func reload(text []byte) *loads.Document {
	d, _ := sut.LoadSpec(text)
	return d
}

func (p *c02) Finish(a *lib.Aggregate) (broken []string) {
	if a.Tags["schema-valid:no"] < 20 {
		broken = append(broken, "too few schema-invalid documents: the implication was hardly exercised")
	}
	if a.Tags["accepted:yes"] == 0 {
		broken = append(broken, "no document was accepted")
	}
	return
}

var _ = strings.Join

// Aux: `vh aux C02 -seed S -n N` dumps N loadable mutated documents (doc.Raw()) with the model's verdict
// against the Swagger 2.0 schema, for the python cross-check (tools/crosscheck_swagger.py, thorough tier).
func (p *c02) Aux(args []string) int {
	fs := flag.NewFlagSet("aux", flag.ExitOnError)
	seed := fs.Int64("seed", 1, "")
	n := fs.Int("n", 2000, "")
	_ = fs.Parse(args)
	if err := p.Init(nil); err != nil {
		fmt.Fprintln(os.Stderr, err)
		return 2
	}
	w := bufio.NewWriter(os.Stdout)
	defer w.Flush()
	for i := 0; i < *n; i++ {
		r := lib.NewRand(*seed, "C02-crosscheck", i)
		text, _, _ := mutatedDoc(i, r, p.fixtures)
		if text == nil {
			continue
		}
		doc, err := sut.LoadSpec(text)
		if err != nil {
			continue
		}
		raw, err := model.Parse(doc.Raw())
		if err != nil {
			continue
		}
		mc := model.SwaggerCtx(model.Emu{})
		v := mc.Valid(model.Swagger20, raw)
		if mc.Unresolved {
			continue
		}
		line, _ := json.Marshal(map[string]any{"document": json.RawMessage(doc.Raw()), "model_valid": v})
		w.Write(line)
		w.WriteByte('\n')
	}
	return 0
}
