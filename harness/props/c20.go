package props

import (
	"sort"
	"errors"
	"fmt"
	"strings"

	oaerrors "github.com/go-openapi/errors"
	"github.com/go-openapi/validate"

	"verif/harness/lib"
	"verif/harness/sut"
)

// C20 — results combine as ordered sets of messages with additive match counts.
type c20 struct{ base }

func init() {
	lib.Register(&c20{base{
		id: "C20", level: "exploration",
		technique: "runtime model-based monitor: random sequences of the public Result operations over a population of results (nil, empty, self, sharing messages) are executed on the real type and on a plain ordered-set model in lock-step; after every step every result is compared with its model (ordered errors, ordered warnings, match count, the four queries, AsError), so an aliasing write through an operand shows up at the step it happens; operands taken from the pool of results (verif hook VerifBorrowResult, as the validators produce them) are filled through the public methods and merged once, with the pool-ownership automaton on and poison-on-redeem in every other case, so a read of the operand after the merge gave it back is loud",
		rule: "one case = a population of 3-6 results (one of them possibly a nil pointer, used as operand and for queries only) and a sequence of 10-200 operations drawn from AddErrors / AddWarnings / Merge / MergeAsErrors / MergeAsWarnings (1-3 operands, self allowed) / Inc / a merge of a freshly borrowed pooled operand, with messages from a pool of 12 texts carried by 3 different error types and nil interfaces mixed in; distinct = FNV-64 of the operation trace; non-trivial = the trace contains a merge whose operand shares a message with its target, or a self-merge, or a later mutation of a merged operand",
		assumptions: []string{"only the exported API of Result is used on the results; pooled operands come from the verif hook and are never touched after the merge which gives them back (what validators do with pooled results is the business of C04)", "messages are compared by Error() text, as AddErrors does", "sampled sequences"},
		quick: 40000, thorough: 1500000,
	}})
}

func (p *c20) Init(w *lib.Worker) error { return nil }

type mres struct {
	errs, warns []string
	count       int
}

func addSet(dst []string, msgs ...string) []string {
	for _, m := range msgs {
		found := false
		for _, d := range dst {
			if d == m {
				found = true
				break
			}
		}
		if !found {
			dst = append(dst, m)
		}
	}
	return dst
}

type myErr struct{ s string }

func (e *myErr) Error() string { return e.s }

func mkErr(r *lib.Rand, msg string) error {
	switch r.Intn(3) {
	case 0:
		return errors.New(msg)
	case 1:
		// go-openapi errors of several codes: a message is a repeat whatever code carries it
		return oaerrors.New([]int32{422, 602, 601, 422, 500}[r.Intn(5)], "%s", msg)
	default:
		return &myErr{msg}
	}
}

var c20Pool = []string{"e0", "e1", "e2", "e3", "path.a in body is required", "x must be of type string", "", "IMPORTANT!boom", "dup", "dup ", "é", "warning: w"}

func (p *c20) Run(w *lib.Worker, idx int, r *lib.Rand) lib.Case {
	n := r.Range(3, 6)
	real := make([]*validate.Result, n)
	mod := make([]*mres, n)
	nilIdx := -1
	if r.P(0.5) {
		nilIdx = r.Intn(n)
	}
	for i := range real {
		if i == nilIdx {
			continue
		}
		if r.Bool() {
			real[i] = &validate.Result{}
		} else {
			real[i] = new(validate.Result)
		}
		mod[i] = &mres{}
	}
	// one case in four draws its messages from 72 texts and fills pooled operands with up to 40 messages, re-adding
	// early ones at the end: lists of more than a handful of messages (and pooled results which had a long list in an
	// earlier life) are where size-dependent de-duplication would live
	pool, wide := c20Pool, idx%4 == 1
	if wide {
		pool = append([]string{}, c20Pool...)
		for k := 0; k < 60; k++ {
			pool = append(pool, fmt.Sprintf("m%d in body is invalid", k))
		}
	}
	var trace []string
	nontrivial := false
	pooledMerges, pooledLong := 0, 0
	validate.VerifReset()
	validate.VerifConfigure(validate.VerifConfig{Track: true, Poison: idx%2 == 0})
	defer validate.VerifConfigure(validate.VerifConfig{})
	merged := map[int]map[int]bool{} // target -> operands merged into it
	steps := r.Range(10, 200)
	c := lib.Case{Evals: steps}

	pickTarget := func() int {
		for {
			t := r.Intn(n)
			if t != nilIdx {
				return t
			}
		}
	}
	check := func(step int, op string) *lib.Violation {
		for i := range real {
			rr, mm := real[i], mod[i]
			if rr == nil {
				if !rr.IsValid() || rr.HasErrors() || rr.HasWarnings() || rr.HasErrorsOrWarnings() {
					return &lib.Violation{What: "a query on a nil result does not answer like an empty result", Detail: trace}
				}
				continue
			}
			ge, gw := make([]string, len(rr.Errors)), make([]string, len(rr.Warnings))
			for k, e := range rr.Errors {
				if e == nil {
					return &lib.Violation{What: fmt.Sprintf("step %d (%s): a nil error was stored in result %d", step, op, i), Detail: trace}
				}
				ge[k] = e.Error()
			}
			for k, e := range rr.Warnings {
				if e == nil {
					return &lib.Violation{What: fmt.Sprintf("step %d (%s): a nil warning was stored in result %d", step, op, i), Detail: trace}
				}
				gw[k] = e.Error()
			}
			if strings.Join(ge, "\x1f") != strings.Join(mm.errs, "\x1f") || len(ge) != len(mm.errs) {
				return &lib.Violation{What: fmt.Sprintf("step %d (%s): errors of result %d are %q, ordered-set model says %q", step, op, i, ge, mm.errs), Detail: trace}
			}
			if strings.Join(gw, "\x1f") != strings.Join(mm.warns, "\x1f") || len(gw) != len(mm.warns) {
				return &lib.Violation{What: fmt.Sprintf("step %d (%s): warnings of result %d are %q, ordered-set model says %q", step, op, i, gw, mm.warns), Detail: trace}
			}
			if rr.MatchCount != mm.count {
				return &lib.Violation{What: fmt.Sprintf("step %d (%s): match count of result %d is %d, model says %d", step, op, i, rr.MatchCount, mm.count), Detail: trace}
			}
			if rr.IsValid() != (len(mm.errs) == 0) || rr.HasErrors() != (len(mm.errs) > 0) || rr.HasWarnings() != (len(mm.warns) > 0) ||
				rr.HasErrorsOrWarnings() != (len(mm.errs)+len(mm.warns) > 0) {
				return &lib.Violation{What: fmt.Sprintf("step %d (%s): queries of result %d disagree with its content", step, op, i), Detail: trace}
			}
			ae := rr.AsError()
			if (ae == nil) != (len(mm.errs) == 0) {
				return &lib.Violation{What: fmt.Sprintf("step %d (%s): AsError of result %d disagrees with validity", step, op, i), Detail: trace}
			}
		}
		return nil
	}

	for s := 0; s < steps; s++ {
		t := pickTarget()
		var op string
		switch r.Weighted(3, 2, 3, 2, 2, 1, 1) {
		case 6:
			// a pooled operand, as the validators produce them (verif hook): it receives messages and match counts
			// through the public methods, is merged once into a target and thereby given back to its pool
			o := validate.VerifBorrowResult()
			mo := &mres{}
			var em, wm []string
			nmsg := r.Range(0, 3)
			if wide && r.Bool() {
				nmsg = r.Range(14, 40)
			}
			for j, k := 0, nmsg; j < k; j++ {
				m := pool[r.Intn(len(pool))]
				if j >= 12 && r.P(0.3) && len(em) > 0 {
					m = em[r.Intn(len(em))] // report an early message again
				}
				if r.Bool() || j >= 12 && r.P(0.6) {
					o.AddErrors(mkErr(r, m))
					mo.errs = addSet(mo.errs, m)
					em = append(em, m)
				} else {
					o.AddWarnings(mkErr(r, m))
					mo.warns = addSet(mo.warns, m)
					wm = append(wm, m)
				}
			}
			for j, k := 0, r.Range(0, 3); j < k; j++ {
				o.Inc()
				mo.count++
			}
			// the operand itself is a Result like any other: judged against its own model before it is given away
			if got, want := sut.Msgs(o.Errors), append([]string{}, mo.errs...); len(o.Errors) != len(mo.errs) || strings.Join(sortedCopy(got), "\x1f") != strings.Join(sortedCopy(want), "\x1f") || o.MatchCount != mo.count || len(o.Warnings) != len(mo.warns) {
				c.Viol = &lib.Violation{What: fmt.Sprintf("step %d: a pooled result filled through AddErrors / AddWarnings / Inc holds errors %q warnings(%d) count %d, the ordered-set model says errors %q warnings(%d) count %d", s, got, len(o.Warnings), o.MatchCount, want, len(mo.warns), mo.count), Detail: trace}
				return c
			}
			kind := []string{"Merge", "MergeAsErrors", "MergeAsWarnings"}[r.Intn(3)]
			op = fmt.Sprintf("r%d.%s(pooled{errors:%q warnings:%q count:%d})", t, kind, em, wm, mo.count)
			switch kind {
			case "Merge":
				mod[t].errs = addSet(mod[t].errs, mo.errs...)
				mod[t].warns = addSet(mod[t].warns, mo.warns...)
				real[t].Merge(o)
			case "MergeAsErrors":
				mod[t].errs = addSet(addSet(mod[t].errs, mo.errs...), mo.warns...)
				real[t].MergeAsErrors(o)
			default:
				mod[t].warns = addSet(addSet(mod[t].warns, mo.errs...), mo.warns...)
				real[t].MergeAsWarnings(o)
			}
			mod[t].count += mo.count
			pooledMerges++
			if len(mo.errs) >= 16 || len(mo.warns) >= 16 {
				pooledLong++
			}
			if mo.count > 0 || len(em)+len(wm) > 0 {
				nontrivial = true
			}
		case 0, 1:
			isErr := r.Bool()
			k := r.Range(0, 4)
			es := make([]error, k)
			var msgs []string
			for j := range es {
				if r.P(0.15) {
					es[j] = nil
					continue
				}
				m := pool[r.Intn(len(pool))]
				es[j] = mkErr(r, m)
				msgs = append(msgs, m)
			}
			if isErr {
				op = fmt.Sprintf("r%d.AddErrors(%q)", t, msgs)
				real[t].AddErrors(es...)
				mod[t].errs = addSet(mod[t].errs, msgs...)
			} else {
				op = fmt.Sprintf("r%d.AddWarnings(%q)", t, msgs)
				real[t].AddWarnings(es...)
				mod[t].warns = addSet(mod[t].warns, msgs...)
			}
			for tgt, ops := range merged {
				if ops[t] && tgt != t {
					nontrivial = true // a merged operand is mutated later: the aliasing clause is exercised
				}
			}
		case 2, 3, 4:
			k := r.Range(1, 3)
			ops := make([]*validate.Result, k)
			oi := make([]int, k)
			for j := range ops {
				oi[j] = r.Intn(n)
				ops[j] = real[oi[j]]
				if oi[j] == t {
					nontrivial = true
				}
			}
			kind := []string{"Merge", "MergeAsErrors", "MergeAsWarnings"}[r.Intn(3)]
			op = fmt.Sprintf("r%d.%s(r%v)", t, kind, oi)
			// model: operands are read one after the other, exactly like a sequence of single merges
			for _, o := range oi {
				if o == nilIdx {
					continue
				}
				src := *mod[o] // copy of the slices headers; contents copied by addSet
				se, sw := append([]string{}, src.errs...), append([]string{}, src.warns...)
				for _, m := range se {
					for _, tm := range mod[t].errs {
						if tm == m {
							nontrivial = true
						}
					}
				}
				switch kind {
				case "Merge":
					mod[t].errs = addSet(mod[t].errs, se...)
					mod[t].warns = addSet(mod[t].warns, sw...)
				case "MergeAsErrors":
					mod[t].errs = addSet(mod[t].errs, se...)
					mod[t].errs = addSet(mod[t].errs, sw...)
				default:
					mod[t].warns = addSet(mod[t].warns, se...)
					mod[t].warns = addSet(mod[t].warns, sw...)
				}
				mod[t].count += src.count
				if merged[t] == nil {
					merged[t] = map[int]bool{}
				}
				merged[t][o] = true
			}
			var ret *validate.Result
			switch kind {
			case "Merge":
				ret = real[t].Merge(ops...)
			case "MergeAsErrors":
				ret = real[t].MergeAsErrors(ops...)
			default:
				ret = real[t].MergeAsWarnings(ops...)
			}
			if ret != real[t] {
				c.Viol = &lib.Violation{What: op + " did not return its receiver", Detail: trace}
				return c
			}
		default:
			op = fmt.Sprintf("r%d.Inc()", t)
			real[t].Inc()
			mod[t].count++
		}
		trace = append(trace, op)
		if v := check(s, op); v != nil {
			c.Viol = v
			return c
		}
	}
	if n := validate.VerifEventTotal(); n > 0 {
		st := validate.VerifSnapshot()
		c.Viol = &lib.Violation{What: fmt.Sprintf("pool discipline violated while pooled operands were merged through the public methods: %v", st.EventCounts), Detail: map[string]any{"operations": trace, "pool_events": st.Events}}
		return c
	}
	c.Nums = map[string]int64{"pooled_operands_merged": int64(pooledMerges), "pooled_operands_with_16_or_more_messages_of_one_kind": int64(pooledLong)}
	c.Hash = lib.Hash64([]byte(strings.Join(trace, ";")))
	c.Nontrivial = nontrivial
	c.Tags = []string{boolTag("nil-in-population", nilIdx >= 0)}
	if idx%10000 == 0 {
		if len(trace) > 12 {
			trace = trace[:12]
		}
		c.Sample = map[string]any{"population": n, "nil_index": nilIdx, "first_operations": trace, "steps": steps}
	}
	return c
}

func (p *c20) Finish(a *lib.Aggregate) (broken []string) {
	if a.Nums["pooled_operands_merged"] == 0 {
		broken = append(broken, "no pooled operand was ever merged")
	}
	return
}

func sortedCopy(in []string) []string {
	out := append([]string{}, in...)
	sort.Strings(out)
	return out
}
