package props

import (
	"encoding/json"
	"fmt"
	"runtime"
	"sort"
	"strconv"
	"strings"
	"sync"
	"sync/atomic"
	"time"

	"github.com/go-openapi/spec"
	"github.com/go-openapi/strfmt"
	"github.com/go-openapi/validate"

	"verif/harness/gen"
	"verif/harness/hist"
	"verif/harness/lib"
	"verif/harness/model"
	"verif/harness/sut"
)

// C05 — concurrent validations are race-free and independent of each other.
type c05 struct{ base }

func init() {
	lib.Register(&c05{base{
		id: "C05", level: "exploration",
		technique: "Go race detector + runtime self-differential monitor + pool hooks: one process built with -race per configuration (2..64 goroutines x GOMAXPROCS 1..16); every goroutine runs its own history (one-shot schema validation, recycling validators, whole-specification validation of its own documents, a validator object shared by all, the value helpers) while one goroutine toggles the package-level continue-on-errors default; each outcome is compared with the sequential reference computed before the goroutines start; phase A runs with poison-on-redeem and yield injection only (the monitor adds no synchronisation, so the race detector sees the library's own happens-before), phase B adds the ownership automaton and counts the cross-goroutine hand-offs of pooled objects; the parent parses the race-detector log of every process",
		rule: "one case = one configuration (goroutines in {2,4,8,16,32,64} x GOMAXPROCS in {1,2,4,16}); per goroutine 80-160 calls with different expected outcomes per goroutine, 8-16 specification validations per configuration spread over the goroutines, shared-validator and helper calls interleaved; all goroutines stay alive until the end of each phase; distinct = the configuration; non-trivial = objects of the pools were handed from one goroutine to another during the run (hand-off count > 0)",
		assumptions: []string{
			"sampled schedules: held on the interleavings that occurred; a clean race-detector run says nothing about pairs of accesses the workload never produced",
			"schemas shared between goroutines contain no $ref (in-place expansion is outside the property); instances and documents are per goroutine",
			"in phase B the monitor's own atomics add happens-before edges and can hide a race: phase A exists for that reason",
		},
		quick: 9, thorough: 81,
	}})
}

func (p *c05) Init(w *lib.Worker) error { return nil }
func (p *c05) Race(string) bool         { return true }
func (p *c05) Chunk(string) int         { return 1 }
func (p *c05) Parallel(string) int      { return 2 }
func (p *c05) CaseTimeout(string) int   { return 1500 }

var c05G = []int{2, 4, 8, 16, 32, 64}
var c05Procs = []int{16, 4, 1, 2}

// Every ninth configuration is the "id" configuration: the schema objects shared between the goroutines carry an
// "id" (and still no $ref). It is kept apart from the others because it meets a recorded finding (the race detector
// reports the in-place write of the reference expander), which is tolerated there and nowhere else.
func c05IDConfig(idx int) bool { return idx%9 == 8 }

func (p *c05) config(idx int) (int, int) {
	if c05IDConfig(idx) {
		return 8, 16
	}
	idx -= idx / 9
	return c05G[idx%len(c05G)], c05Procs[(idx+idx/len(c05G))%len(c05Procs)]
}

// KnownRace attributes a race report to a recorded finding: only in the "id" configuration, and only when one of the
// two accesses is the write-back of the reference expander (spec.ExpandSchemaWithBasePath: *schema = *s).
func (p *c05) KnownRace(tier string, rb lib.RaceReport) string {
	if c05IDConfig(rb.From) && strings.Contains(rb.Text, "go-openapi/spec.ExpandSchemaWithBasePath") {
		return "schema-id-inplace-expansion-race"
	}
	return ""
}

func (p *c05) ChildEnv(tier string, from int) []string {
	_, procs := p.config(from)
	return []string{"GOMAXPROCS=" + strconv.Itoa(procs)}
}

type c05Call struct {
	kind string // op | shared | helper
	op   *hist.Op
	inst []byte // shared validator
	which int   // which shared validator / shared schema object
	oneShot bool // shared schema object: through AgainstSchema (else through a recycling validator object)
	val   any   // value for the shared parameter / header validator
	pat  string // helper
	data string
	ref  string
}

func (p *c05) Run(w *lib.Worker, idx int, r *lib.Rand) lib.Case {
	g, procs := p.config(idx)
	c := lib.Case{Hash: lib.Hash64([]byte(fmt.Sprintf("g=%d procs=%d idx=%d", g, procs, idx))), Nums: map[string]int64{}}
	c.Tags = []string{fmt.Sprintf("goroutines:%d", g), fmt.Sprintf("GOMAXPROCS:%d", runtime.GOMAXPROCS(0))}

	// validator objects shared by every goroutine (no recycling; $ref-free schemas): a generated schema, a generated
	// schema carrying defaults, a directed schema (required members with defaults, nested under items / allOf /
	// patternProperties / additionalProperties), and a parameter and a header validator over arrays of arrays
	sg := &gen.SchemaGen{R: r.Fork(), O: gen.SchemaOpts{MaxDepth: 3, Refs: false, SpecialNames: true}}
	sharedDoc := sg.Document()
	sharedSchema, _ := sut.Schema(gen.JSON(sharedDoc))
	sgd := &gen.SchemaGen{R: r.Fork(), O: gen.SchemaOpts{MaxDepth: 3, Refs: false, SpecialNames: true, Defaults: true}}
	sharedDocD := sgd.Document()
	sharedSchemaD, _ := sut.Schema(gen.JSON(sharedDocD))
	var directedDoc map[string]any
	_ = json.Unmarshal([]byte(c05DirectedShared), &directedDoc)
	directedSchema, _ := sut.Schema([]byte(c05DirectedShared))
	sharedSchemas := []*validate.SchemaValidator{
		validate.NewSchemaValidator(sharedSchema, nil, "shared", strfmt.Default),
		validate.NewSchemaValidator(sharedSchemaD, nil, "sharedD", strfmt.Default),
		validate.NewSchemaValidator(directedSchema, nil, "directed", strfmt.Default),
	}
	sharedInst := func(rg *lib.Rand) (int, []byte) {
		switch k := rg.Intn(3); k {
		case 0:
			return 0, gen.JSON(sg.Instance(sharedDoc, sharedDoc, 0, 0.3))
		case 1:
			return 1, gen.JSON(sgd.Instance(sharedDocD, sharedDocD, 0, 0.3))
		default:
			return 2, []byte(c05DirectedInstances[rg.Intn(len(c05DirectedInstances))])
		}
	}
	// schema OBJECTS shared by every goroutine ($ref-free, decoded once): each goroutine hands them to the one-shot
	// entry point and builds its own recycling validators from them
	idCfg := c05IDConfig(idx)
	var sharedObjs []*spec.Schema
	var sharedObjDocs []map[string]any
	var sharedObjGens []*gen.SchemaGen
	for k := 0; k < 4; k++ {
		og := &gen.SchemaGen{R: r.Fork(), O: gen.SchemaOpts{MaxDepth: 3, Refs: false, SpecialNames: true, Defaults: k%2 == 1}}
		od := og.Document()
		if idCfg {
			od["id"] = fmt.Sprintf("http://example.com/shared-%d.json", k)
		}
		so, _ := sut.Schema(gen.JSON(od))
		sharedObjs, sharedObjDocs, sharedObjGens = append(sharedObjs, so), append(sharedObjDocs, od), append(sharedObjGens, og)
	}
	if idCfg {
		c.Tags = append(c.Tags, "shared-schema-objects-carry-id")
	}
	max3, min1 := 3.0, int64(1)
	gridDef := &model.SimpleDef{Type: "array", Items: &model.SimpleDef{Type: "array", MinItems: &min1, Items: &model.SimpleDef{Type: "integer", Maximum: &max3, Enum: []any{1.0, 2.0, 3.0, 9.0}}}}
	smp := &gen.SimpleGen{R: r.Fork()}
	sharedParam := validate.NewParamValidator(smp.Param(gridDef, "grid", "query"), strfmt.Default)
	sharedHeader := validate.NewHeaderValidator("X-Grid", smp.Header(gridDef), strfmt.Default)
	grids := []any{
		[]any{[]any{}, []any{int64(1)}}, []any{[]any{int64(9)}}, []any{[]any{int64(1), int64(2)}, []any{int64(4)}}, []any{[]any{int64(3)}, []any{}, []any{int64(2), int64(7)}},
		[][]int64{{1}, {2, 3}}, [][]int64{{}, {5}}, []any{[]any{"x"}}, []any{},
	}

	specBudget := 8
	if w.Tier == "thorough" {
		specBudget = 16
	}
	perG := make([][]*c05Call, g)
	total := 0
	for gi := 0; gi < g; gi++ {
		rg := r.Fork()
		nspec := specBudget / g
		if gi < specBudget%g {
			nspec++
		}
		n := rg.Range(80, 160)
		opts := hist.Options{}
		if nspec > 0 {
			opts.SpecDocs = hist.SpecDocs(rg.Fork(), 2)
			opts.SpecEvery = n / nspec
		}
		ops := hist.Gen(rg, n, (gi+1)*100000, opts)
		seenSpec := 0
		for _, op := range ops {
			if op.Kind == "spec" {
				seenSpec++
				if seenSpec > nspec {
					continue
				}
			}
			perG[gi] = append(perG[gi], &c05Call{kind: "op", op: op})
			switch rg.Intn(5) {
			case 2:
				k := rg.Intn(len(sharedObjs))
				perG[gi] = append(perG[gi], &c05Call{kind: "shared-schema", which: k, oneShot: rg.Bool(), inst: gen.JSON(sharedObjGens[k].Instance(sharedObjDocs[k], sharedObjDocs[k], 0, 0.3))})
			case 0:
				if rg.P(0.3) {
					perG[gi] = append(perG[gi], &c05Call{kind: "shared-simple", which: rg.Intn(2), val: grids[rg.Intn(len(grids))]})
				} else {
					which, inst := sharedInst(rg)
					perG[gi] = append(perG[gi], &c05Call{kind: "shared", which: which, inst: inst})
				}
			case 1:
				pat := gen.Patterns[rg.Intn(len(gen.Patterns))]
				ps := pat.P
				if rg.Bool() {
					// a private pattern, first compiled by this goroutine; new ones keep coming during the whole
					// run, so that cache inserts overlap with the other goroutines' lookups
					ps = fmt.Sprintf("%s|g%dz%d", pat.P, gi, len(perG[gi])%23)
				}
				perG[gi] = append(perG[gi], &c05Call{kind: "helper", pat: ps, data: append(pat.Yes, pat.No...)[rg.Intn(len(pat.Yes)+len(pat.No))]})
			}
		}
		total += len(perG[gi])
	}
	exec := func(cl *c05Call) string {
		switch cl.kind {
		case "op":
			return cl.op.Run(true).Key()
		case "shared":
			// the outcome of a validator object includes what it recorded for post-processing (defaults, pruning):
			// the schemata per object member, per item and for the root
			var digest string
			o := sut.Guard(func() sut.Outcome {
				v, _ := sut.Value(cl.inst)
				res := sharedSchemas[cl.which].Validate(v)
				digest = schemataDigest(res)
				runtime.Gosched()
				if again := schemataDigest(res); again != digest {
					digest += "|changed-after-return:" + again
				}
				return sut.FromResult(res)
			})
			return o.Key() + "|schemata=" + digest
		case "shared-schema":
			return sut.Guard(func() sut.Outcome {
				v, _ := sut.Value(cl.inst)
				if cl.oneShot {
					return sut.FromError(validate.AgainstSchema(sharedObjs[cl.which], v, strfmt.Default))
				}
				res := validate.NewSchemaValidator(sharedObjs[cl.which], nil, "", strfmt.Default, validate.WithRecycleValidators(true)).Validate(v)
				return sut.FromResult(res)
			}).Key()
		case "shared-simple":
			return sut.Guard(func() sut.Outcome {
				if cl.which == 0 {
					return sut.FromResult(sharedParam.Validate(cl.val))
				}
				return sut.FromResult(sharedHeader.Validate(cl.val))
			}).Key()
		default:
			e1 := validate.Pattern("p", "body", cl.data, cl.pat)
			e2 := validate.Enum("p", "body", cl.data, []interface{}{"a", "foo", 1})
			e3 := validate.FormatOf("p", "body", "date", cl.data, nil)
			// typed string lists, with and without a duplicate (every goroutine rejects some and accepts others)
			e4 := validate.UniqueItems("p", "body", []string{cl.data, "u1", cl.pat, "u2"})
			e5 := validate.UniqueItems("p", "body", []string{"u1", cl.data, "u2", cl.data})
			e6 := validate.UniqueItems("p", "body", []interface{}{cl.data, 1.0, "u2", 1.0})
			e7 := validate.MinLength("p", "body", cl.data, 2)
			return fmt.Sprintf("%v|%v|%v|%v|%v|%v|%v", e1 == nil, e2 == nil, e3 == nil, e4 == nil, e5 == nil, e6 == nil, e7 == nil)
		}
	}
	// sequential references, before any goroutine starts
	total = 0
	for gi := range perG {
		var keep []*c05Call
		for _, cl := range perG[gi] {
			switch cl.kind {
			case "op":
				var o sut.Outcome
				if cl.op.Kind == "spec" {
					o = cl.op.Run(true) // Spec has no off switch: alone, earlier, is the reference
				} else {
					o = cl.op.Run(false)
				}
				if o.Panic != "" {
					continue // a panicking call (recorded dependency panic) is outside this property; see C11
				}
				cl.ref = o.Key()
			default:
				cl.ref = exec(cl)
			}
			keep = append(keep, cl)
		}
		perG[gi] = keep
		total += len(keep)
	}
	// from here on nothing may touch the pools from outside: a recovered panic must not reset them under the others' feet
	sut.ResetPoolsOnPanic = false
	defer func() { sut.ResetPoolsOnPanic = true }()

	var firstMismatch atomic.Value
	var mismatches atomic.Int64
	runPhase := func(name string, cfg validate.VerifConfig) (elapsed time.Duration) {
		validate.VerifReset()
		validate.VerifConfigure(cfg)
		start := make(chan struct{})
		done := make(chan struct{})
		var wg, alive sync.WaitGroup
		var stopToggle atomic.Bool
		// the package-level option setter, toggled while others build SpecValidators and pin their own mode
		alive.Add(1)
		go func() {
			defer alive.Done()
			<-start
			for i := 0; !stopToggle.Load(); i++ {
				validate.SetContinueOnErrors(i%2 == 0)
				runtime.Gosched()
				if i%64 == 0 {
					time.Sleep(50 * time.Microsecond)
				}
			}
			validate.SetContinueOnErrors(false)
			<-done
		}()
		for gi := 0; gi < g; gi++ {
			wg.Add(1)
			alive.Add(1)
			go func(gi int) {
				defer alive.Done()
				<-start
				for ci, cl := range perG[gi] {
					got := exec(cl)
					if got != cl.ref {
						mismatches.Add(1)
						what := fmt.Sprintf("phase %s, goroutine %d of %d, call %d (%s", name, gi, g, ci, cl.kind)
						if cl.op != nil {
							what += "/" + cl.op.Kind
						}
						firstMismatch.CompareAndSwap(nil, map[string]any{"what": what + ")", "concurrent_outcome": got, "sequential_reference": cl.ref, "call": renderCall(cl)})
					}
				}
				wg.Done()
				<-done // stay alive until everybody is finished: the race detector forgets finished goroutines
			}(gi)
		}
		t0 := time.Now()
		close(start)
		wg.Wait()
		stopToggle.Store(true)
		elapsed = time.Since(t0)
		close(done)
		alive.Wait()
		return elapsed
	}

	yield := uint32(7)
	runPhase("A(poison+yield)", validate.VerifConfig{Poison: true, YieldEvery: yield})
	c.Evals += total
	if mismatches.Load() == 0 {
		runPhase("B(ownership+census+poison+yield)", validate.VerifConfig{Track: true, Census: true, Poison: true, YieldEvery: yield})
		c.Evals += total
	}
	st := validate.VerifSnapshot()
	events := validate.VerifEventTotal()
	validate.VerifConfigure(validate.VerifConfig{})
	var handoffs, reuses int64
	for name, ps := range st.Pools {
		handoffs += ps.Handoffs
		reuses += ps.Reuses
		c.Nums["handoffs:"+name] = ps.Handoffs
	}
	c.Nums["cross_goroutine_handoffs"] = handoffs
	c.Nums["pool_reuses"] = reuses
	c.Nums["yields_injected"] = st.Yields
	c.Nums["concurrent_calls"] = int64(total)
	c.Nontrivial = handoffs > 0
	c.Sample = map[string]any{"goroutines": g, "GOMAXPROCS": runtime.GOMAXPROCS(0), "calls_per_phase": total, "cross_goroutine_handoffs": handoffs, "pool_reuses": reuses, "yields": st.Yields}
	if m := mismatches.Load(); m > 0 {
		fm := firstMismatch.Load()
		c.Viol = &lib.Violation{What: fmt.Sprintf("%d concurrent calls returned something else than when run alone (g=%d, GOMAXPROCS=%d); first: %v", m, g, runtime.GOMAXPROCS(0), fm.(map[string]any)["what"]), Detail: fm}
		return c
	}
	if events > 0 {
		c.Viol = &lib.Violation{What: fmt.Sprintf("pool discipline violated under concurrency (g=%d, GOMAXPROCS=%d): %v", g, runtime.GOMAXPROCS(0), st.EventCounts), Detail: st.Events}
	}
	return c
}

// schemataDigest renders what a result recorded for post-processing: the number of schemata for the root object,
// per (member name) and per (item index), sorted.
func schemataDigest(res *validate.Result) string {
	if res == nil {
		return "nil"
	}
	// the content of each recorded schema is read as well (type, number of properties, default): a recorded schema
	// which still belongs to somebody else is rewritten under the reader (a race, and another digest)
	sig := func(l []*spec.Schema) string {
		out := make([]string, 0, len(l))
		for _, sc := range l {
			if sc == nil {
				out = append(out, "nil")
				continue
			}
			out = append(out, fmt.Sprintf("%v/%d/%d/%v/%s", sc.Type, len(sc.Properties), len(sc.PatternProperties), sc.Default, sc.Pattern))
		}
		sort.Strings(out)
		return strings.Join(out, ";")
	}
	var parts []string
	for k, v := range res.FieldSchemata() {
		parts = append(parts, fmt.Sprintf("f:%s:%d:%s", k.Field(), len(v), sig(v)))
	}
	for k, v := range res.ItemSchemata() {
		parts = append(parts, fmt.Sprintf("i:%d:%d:%s", k.Index(), len(v), sig(v)))
	}
	sort.Strings(parts)
	root := res.RootObjectSchemata()
	return fmt.Sprintf("root:%d:%s,%s", len(root), sig(root), strings.Join(parts, ","))
}

func renderCall(cl *c05Call) any {
	switch cl.kind {
	case "op":
		return cl.op.Render()
	case "shared":
		return map[string]any{"kind": "shared-validator", "which": cl.which, "instance": string(cl.inst)}
	case "shared-schema":
		return map[string]any{"kind": "shared-schema-object", "which": cl.which, "one_shot": cl.oneShot, "instance": string(cl.inst)}
	case "shared-simple":
		return map[string]any{"kind": "shared-parameter-or-header-validator", "which": cl.which, "value": fmt.Sprintf("%#v", cl.val)}
	default:
		return map[string]any{"kind": "helpers", "pattern": cl.pat, "data": cl.data}
	}
}

func (p *c05) Finish(a *lib.Aggregate) (broken []string) {
	if a.Nums["cross_goroutine_handoffs"] == 0 {
		broken = append(broken, "no pooled object was ever handed from one goroutine to another: the concurrency of the pools was not exercised")
	}
	for _, t := range []string{"SchemaValidator", "Result", "objectValidator", "typeValidator", "ParamValidator"} {
		if a.Nums["handoffs:"+t] == 0 {
			broken = append(broken, "no cross-goroutine hand-off observed for pool "+t)
		}
	}
	return
}

// A directed schema for the shared validator: required members which have defaults, at several nesting
// positions, so that every per-call scratch value of the object validators is exercised by all goroutines at once.
const c05DirectedShared = `{"type":"object","required":["id","tags"],
 "properties":{"id":{"type":"string","default":"none"},"tags":{"type":"array","default":[],"items":{"type":"object","required":["k","v"],"properties":{"k":{"type":"string","default":"key"},"v":{"type":"integer","default":0,"maximum":10}}}},
   "shape":{"oneOf":[{"type":"object","required":["w"],"properties":{"w":{"type":"integer","default":1},"tag":{"type":"string"}}},
      {"type":"object","required":["r"],"properties":{"r":{"type":"array","items":{"type":"object","properties":{"q":{"type":"array","items":{"type":"integer"}}}}}}},
      {"type":"object","required":["z1","z2"],"properties":{"z1":{"type":"array","items":{"type":"string","pattern":"^[a-z]+$"}},"z2":{"type":"object","additionalProperties":{"type":"integer"}}}}]},
   "meta":{"allOf":[{"type":"object","required":["a"],"properties":{"a":{"type":"integer","default":1}}},{"type":"object","required":["b"],"properties":{"b":{"type":"string","default":"bee","minLength":2}}}]}},
 "patternProperties":{"^x-":{"type":"object","required":["on"],"properties":{"on":{"type":"boolean","default":true}}}},
 "additionalProperties":{"type":"object","required":["z"],"properties":{"z":{"type":"number","default":1.5}}}}`

var c05DirectedInstances = []string{
	`{}`, `{"id":"i1"}`, `{"tags":[{}]}`, `{"tags":[{"k":"a"},{"v":3},{"k":"b","v":11}]}`, `{"id":"i","tags":[{"v":12}]}`,
	`{"meta":{}}`, `{"meta":{"a":2}}`, `{"meta":{"b":"x"}}`, `{"x-a":{}}`, `{"x-a":{"on":false},"x-b":{}}`, `{"other":{}}`, `{"other":{"z":"no"}}`,
	`{"shape":{"w":3,"tag":"t","z1":["a","b","c","d","e","f","g","h"],"z2":{"a":1,"b":2,"c":3,"d":4}}}`, `{"shape":{"tag":"t"}}`, `{"id":"s","shape":{"w":1}}`,
	`{"shape":{"r":[{"q":[1,2,3]},{"q":[4,5,6]},{"q":[]}],"w":2}}`, `{"shape":{"r":[{"q":[1]}]},"tags":[{"k":"a"}]}`,
	`{"id":5}`, `{"tags":[{"k":1}]}`, `[]`, `{"meta":{"a":"s","b":"ok"},"other":{},"x-q":{"on":1}}`,
}
