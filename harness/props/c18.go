package props

import (
	"fmt"
	"math/bits"
	"sort"
	"strings"

	"github.com/go-openapi/strfmt"
	"github.com/go-openapi/validate"
	"github.com/go-openapi/validate/post"

	"verif/harness/gen"
	"verif/harness/lib"
	"verif/harness/model"
	"verif/harness/sut"
)

// C18 — applying defaults fills exactly the absent members that have a default.
// C19 — pruning removes exactly the members no schema describes.
type c18 struct{ base }
type c19 struct{ base }

func init() {
	lib.Register(&c18{base{
		id: "C18", level: "exploration",
		technique:   "runtime reference-model monitor: valid object data is validated by a real validator (recycling off and on), post.ApplyDefaults is applied to the real result, and the data afterwards is compared with what the independent draft-4 model extended with 'applicable schemata per member' prescribes: every absent member with an applicable default holds one of those defaults, present members are untouched (snapshot), nothing else appears",
		rule:        "object schemas with defaults at depth <=4 under properties, allOf, anyOf, oneOf, inside array items and tuple items, with local $ref; instances derived from the schema with random subsets of members present, kept when both the model and the library call them valid; distinct = FNV-64 of schema+instance; non-trivial = at least one absent member has an applicable default (something must be filled in)",
		assumptions: []string{"validity and the selection of anyOf/oneOf alternatives follow the library's documented Swagger rule that a required member whose property schema declares a default counts as present (the data is 'valid object data' by the library's own verdict)", "a default declared by a definition which the property schema merely references ($ref) may be filled in but is not demanded (the statement lists properties / allOf / anyOf / oneOf; the library fills such a default only when the enclosing schema was itself reached through a reference)", "dependencies are not part of the claim and not generated", "defaults of JSON null are not defaults for the library (s.Default != nil) and are not generated", "the draft-4 model and its applicable-schemata walk are trusted; sampled"},
		quick:       150000, thorough: 4000000,
	}})
	lib.Register(&c19{base{
		id: "C19", level: "exploration",
		technique:   "runtime reference-model monitor: valid data is validated by a real validator, post.Prune is applied to the real result and the remaining data is compared with the data pruned by the independent model (a member survives iff an applicable schema describes it: declared property, matching pattern property, schema-valued additionalProperties; through allOf and the selected anyOf/oneOf alternative; recursively); survivors must be unchanged; without anyOf/oneOf a second validate+prune must remove nothing",
		rule:        "schemas built from properties, patternProperties, additionalProperties (absent / true / schema), items, tuples, allOf / anyOf / oneOf and local $ref; instances with described and undescribed members at every depth, kept when model and library call them valid; distinct = FNV-64 of schema+instance; non-trivial = the model prunes at least one member and keeps at least one",
		assumptions: []string{"additionalProperties:false schemas make undescribed members invalid, so pruning is exercised by absent / true / schema-valued additionalProperties", "the draft-4 model and its applicable-schemata walk are trusted; sampled"},
		quick:       150000, thorough: 4000000,
	}})
}

func (p *c18) Init(w *lib.Worker) error { return initModel() }
func (p *c19) Init(w *lib.Worker) error { return initModel() }

// validPair generates a (schema, instance) pair which both the model and the library call valid.
func validPair(r *lib.Rand, objectRoot bool) (st, it []byte, schema, inst any, ok bool) {
	g := &gen.SchemaGen{R: r, O: gen.SchemaOpts{MaxDepth: 4, Refs: true, Defaults: true, NoDeps: true, OnlyObjectRoot: objectRoot, EmptyNames: true}}
	doc := g.Document()
	stripNullDefaults(doc)
	var raw any
	for try := 0; try < 4; try++ {
		raw = g.Instance(doc, doc, 0, 0)
		st, it = gen.JSON(doc), gen.JSON(raw)
		schema, _ = model.Parse(st)
		inst, _ = model.Parse(it)
		if _, isObj := inst.(map[string]any); objectRoot && !isObj {
			continue
		}
		mc := &model.Ctx{Root: schema, Formats: strfmt.Default, RequiredSatisfiedByDefault: true}
		if mc.Valid(schema, inst) && !mc.Unresolved {
			return st, it, schema, inst, true
		}
	}
	return nil, nil, nil, nil, false
}

func stripNullDefaults(v any) {
	switch x := v.(type) {
	case map[string]any:
		if d, ok := x["default"]; ok && d == nil {
			delete(x, "default")
		}
		for _, e := range x {
			stripNullDefaults(e)
		}
	case []any:
		for _, e := range x {
			stripNullDefaults(e)
		}
	}
}

// at returns the node of a raw tree at a "/a/0/b" path.
func at(root any, path string) any {
	cur := root
	if path == "" {
		return cur
	}
	for _, tok := range strings.Split(path[1:], "/") {
		switch x := cur.(type) {
		case map[string]any:
			cur = x[tok]
		case []any:
			var i int
			fmt.Sscanf(tok, "%d", &i)
			if i < 0 || i >= len(x) {
				return nil
			}
			cur = x[i]
		default:
			return nil
		}
	}
	return cur
}

var prevSchemaText []byte

// longLivedWarmUp: the non-recycling validator of the current case validates other documents first (set per case).
var longLivedWarmUp bool

func runValidator(st, it []byte, recycle bool) (*validate.Result, any, sut.Outcome) {
	var res *validate.Result
	var data any
	o := sut.Guard(func() sut.Outcome {
		s, _ := sut.Schema(st)
		data, _ = sut.Value(it)
		// the one-shot entry point on the same data first (a common pattern: check, then validate for
		// post-processing): it recycles results, whose leftovers must not reach the result built below
		oneShot := func(text []byte) {
			// guarded on its own: a panic of this auxiliary call (the recorded dependency panic) is not the subject here
			_ = sut.Guard(func() sut.Outcome {
				if s0, err := sut.Schema(text); err == nil {
					_ = validate.AgainstSchema(s0, data, strfmt.Default)
				}
				return sut.Outcome{Valid: true}
			})
		}
		oneShot(st)
		// ... and against ANOTHER schema (the previous case's): whatever that run recorded about this very data
		// (same object identities) must not leak into the result built below
		if prevSchemaText != nil {
			oneShot(prevSchemaText)
		}
		prevSchemaText = append(prevSchemaText[:0], st...)
		var opts []validate.Option
		if recycle {
			opts = append(opts, validate.WithRecycleValidators(true))
		}
		v := validate.NewSchemaValidator(s, nil, "", strfmt.Default, opts...)
		if !recycle && longLivedWarmUp {
			// the validator object is long-lived: it first judges a copy of the data, gets that copy's defaults applied
			// (so the defaulted members are PRESENT), judges the filled copy again, and only then the data itself, in
			// which those members are absent: what it noted about the first documents must not matter
			if warm, err := sut.Value(it); err == nil {
				_ = sut.Guard(func() sut.Outcome {
					// the copy is filled by ANOTHER validator first, so that the very first document this validator
					// sees has the defaulted members present
					if s1, err := sut.Schema(st); err == nil {
						post.ApplyDefaults(validate.NewSchemaValidator(s1, nil, "", strfmt.Default).Validate(warm))
					}
					post.ApplyDefaults(v.Validate(warm))
					v.Validate(warm)
					// ... and a second copy which gets pruned and judged again (undescribed members gone)
					if warm2, err := sut.Value(it); err == nil {
						post.Prune(v.Validate(warm2))
						v.Validate(warm2)
					}
					return sut.Outcome{Valid: true}
				})
			}
		}
		res = v.Validate(data)
		return sut.FromResult(res)
	})
	return res, data, o
}

func (p *c18) Run(w *lib.Worker, idx int, r *lib.Rand) lib.Case {
	longLivedWarmUp = idx%2 == 1
	st, it, schema, inst, ok := validPair(r, true)
	if !ok {
		return lib.Case{Tags: []string{"no-valid-instance"}}
	}
	// what the model prescribes
	type mk struct{ obj, member string }
	defaults := map[mk][]any{}
	optional := map[mk][]any{} // defaults reachable only through a bare $ref property schema: allowed, not demanded
	mc := &model.Ctx{Root: schema, Formats: strfmt.Default, RequiredSatisfiedByDefault: true}
	mc.Applicable(schema, inst, "", func(objPath, member string, present bool, s map[string]any) {
		if present || s == nil {
			return
		}
		if t, viaRef := s["x-verif-via-ref"].(map[string]any); viaRef {
			// the property schema is a bare $ref: the statement lists properties / allOf / anyOf / oneOf, not
			// references, so a default declared by the referenced definition MAY be filled in but is not demanded
			if d, has := t["default"]; has && d != nil {
				optional[mk{objPath, member}] = append(optional[mk{objPath, member}], d)
			}
			return
		}
		if d, has := s["default"]; has && d != nil {
			defaults[mk{objPath, member}] = append(defaults[mk{objPath, member}], d)
		}
	})
	c := lib.Case{Hash: lib.Hash64(append(append([]byte{}, st...), it...)), Nontrivial: len(defaults) > 0, Evals: 2}
	c.Tags = []string{boolTag("something-to-fill", len(defaults) > 0)}
	for _, recycle := range []bool{false, true} {
		res, data, o := runValidator(st, it, recycle)
		sample := map[string]any{"schema": string(st), "instance": string(it), "recycle": recycle}
		if o.Panic != "" {
			if isSpecMarshalPanic(o.Panic, st) {
				return lib.Case{Tags: []string{"skipped:spec-marshal"}}
			}
			c.Viol = &lib.Violation{What: "panic: " + o.Panic, Detail: sample}
			return c
		}
		if !o.Valid {
			return lib.Case{Tags: []string{"library-says-invalid"}} // C01's business
		}
		o2 := sut.Guard(func() sut.Outcome { post.ApplyDefaults(res); return sut.Outcome{Valid: true} })
		if o2.Panic != "" {
			c.Viol = &lib.Violation{What: "ApplyDefaults panicked: " + o2.Panic, Detail: sample}
			return c
		}
		after, _ := model.Parse(gen.JSON(data))
		sample["after_ApplyDefaults"] = model.Canon(after)
		// compare, object by object
		var fail string
		var walk func(before, now any, path string)
		walk = func(before, now any, path string) {
			if fail != "" {
				return
			}
			switch b := before.(type) {
			case map[string]any:
				n, isObj := now.(map[string]any)
				if !isObj {
					fail = "object at " + path + " is no longer an object"
					return
				}
				for k, bv := range b {
					nv, still := n[k]
					if !still {
						fail = fmt.Sprintf("member %s/%s, which was present, disappeared", path, k)
						return
					}
					walk(bv, nv, path+"/"+k)
				}
				keys := make([]string, 0, len(n))
				for k := range n {
					keys = append(keys, k)
				}
				sort.Strings(keys)
				for _, k := range keys {
					if _, was := b[k]; was {
						continue
					}
					ds := append(append([]any{}, defaults[mk{path, k}]...), optional[mk{path, k}]...)
					if len(ds) == 0 {
						fail = fmt.Sprintf("member %s/%s appeared (= %s) although no applicable schema declares a default for it", path, k, model.Canon(n[k]))
						return
					}
					okv := false
					for _, d := range ds {
						if model.Equal(d, n[k]) {
							okv = true
						}
					}
					if !okv {
						fail = fmt.Sprintf("member %s/%s was filled with %s, which is none of the applicable defaults %s", path, k, model.Canon(n[k]), model.Canon(any(ds)))
						return
					}
				}
			case []any:
				n, isArr := now.([]any)
				if !isArr || len(n) != len(b) {
					fail = "array at " + path + " changed shape"
					return
				}
				for i := range b {
					walk(b[i], n[i], fmt.Sprintf("%s/%d", path, i))
				}
			default:
				if !model.Equal(before, now) {
					fail = fmt.Sprintf("value at %s changed from %s to %s", path, model.Canon(before), model.Canon(now))
				}
			}
		}
		walk(inst, after, "")
		if fail == "" {
			for k, ds := range defaults {
				obj, _ := at(after, k.obj).(map[string]any)
				if obj == nil {
					fail = "object at " + k.obj + " vanished"
					break
				}
				if _, filled := obj[k.member]; !filled {
					fail = fmt.Sprintf("member %s/%s is absent, an applicable schema declares default %s, but it was not filled in", k.obj, k.member, model.Canon(ds[0]))
					break
				}
			}
		}
		if fail != "" {
			if keys := explainDefaults(schema, inst, after); keys != nil {
				c.Known = keys
				c.KnownWhat = fmt.Sprintf("ApplyDefaults: %s (the library selected another anyOf/oneOf alternative than draft 4); schema=%s instance=%s after=%s", fail, st, it, model.Canon(after))
				c.Sample = sample
				return c
			}
			c.Viol = &lib.Violation{What: fmt.Sprintf("ApplyDefaults (recycle=%v): %s; schema=%s instance=%s after=%s", recycle, fail, st, it, model.Canon(after)), Detail: sample}
			return c
		}
		if idx%30000 == 0 && !recycle {
			c.Sample = sample
		}
	}
	c.Nums = map[string]int64{"members_expected_to_be_filled": int64(len(defaults))}
	return c
}

func (p *c18) Finish(a *lib.Aggregate) (broken []string) {
	if a.Nums["members_expected_to_be_filled"] < 100 {
		broken = append(broken, "hardly any member had to be filled")
	}
	return
}

func (p *c19) Run(w *lib.Worker, idx int, r *lib.Rand) lib.Case {
	longLivedWarmUp = idx%2 == 1
	st, it, schema, inst, ok := validPair(r, idx%3 != 0)
	if !ok {
		return lib.Case{Tags: []string{"no-valid-instance"}}
	}
	described := map[string]bool{}
	mc := &model.Ctx{Root: schema, Formats: strfmt.Default, RequiredSatisfiedByDefault: true}
	mc.Applicable(schema, inst, "", func(objPath, member string, present bool, s map[string]any) {
		if present {
			described[objPath+"\x00"+member] = true
		}
	})
	removed, kept := 0, 0
	var prune func(v any, path string) any
	prune = func(v any, path string) any {
		switch x := v.(type) {
		case map[string]any:
			out := map[string]any{}
			for k, e := range x {
				if described[path+"\x00"+k] {
					out[k] = prune(e, path+"/"+k)
					kept++
				} else {
					removed++
				}
			}
			return out
		case []any:
			out := make([]any, len(x))
			for i, e := range x {
				out[i] = prune(e, fmt.Sprintf("%s/%d", path, i))
			}
			return out
		}
		return v
	}
	want := prune(inst, "")
	c := lib.Case{Hash: lib.Hash64(append(append([]byte{}, st...), it...)), Nontrivial: removed > 0 && kept > 0, Evals: 2}
	c.Tags = []string{boolTag("something-to-prune", removed > 0)}
	c.Nums = map[string]int64{"members_expected_to_be_pruned": int64(removed), "members_expected_to_survive": int64(kept)}
	for _, recycle := range []bool{false, true} {
		res, data, o := runValidator(st, it, recycle)
		sample := map[string]any{"schema": string(st), "instance": string(it), "recycle": recycle, "model_pruned": model.Canon(want)}
		if o.Panic != "" {
			if isSpecMarshalPanic(o.Panic, st) {
				return lib.Case{Tags: []string{"skipped:spec-marshal"}}
			}
			c.Viol = &lib.Violation{What: "panic: " + o.Panic, Detail: sample}
			return c
		}
		if !o.Valid {
			return lib.Case{Tags: []string{"library-says-invalid"}}
		}
		o2 := sut.Guard(func() sut.Outcome { post.Prune(res); return sut.Outcome{Valid: true} })
		if o2.Panic != "" {
			c.Viol = &lib.Violation{What: "Prune panicked: " + o2.Panic, Detail: sample}
			return c
		}
		after, _ := model.Parse(gen.JSON(data))
		sample["after_Prune"] = model.Canon(after)
		if !model.Equal(after, want) {
			if keys := explainPrune(schema, inst, after); keys != nil {
				// the library selected another anyOf/oneOf alternative than draft 4 does because of a recorded C01 deviation:
				// with exactly that deviation switched on, the model prunes to the very same document
				c.Known = keys
				c.KnownWhat = fmt.Sprintf("Prune left %s, draft-4 selection gives %s; schema=%s instance=%s", model.Canon(after), model.Canon(want), st, it)
				c.Sample = sample
				return c
			}
			c.Viol = &lib.Violation{What: fmt.Sprintf("Prune (recycle=%v) left %s, the model says %s; schema=%s instance=%s", recycle, model.Canon(after), model.Canon(want), st, it), Detail: sample}
			return c
		}
		if !recycle && !model.HasKeyword(schema, "anyOf", "oneOf") {
			// validating and pruning the pruned data again removes nothing more
			pt := gen.JSON(data)
			res2, data2, o3 := runValidator(st, pt, false)
			if o3.Panic == "" && o3.Valid {
				post.Prune(res2)
				again, _ := model.Parse(gen.JSON(data2))
				if !model.Equal(again, after) {
					c.Viol = &lib.Violation{What: fmt.Sprintf("pruning the pruned data again removed more: %s -> %s; schema=%s", model.Canon(after), model.Canon(again), st), Detail: sample}
					return c
				}
				c.Tags = append(c.Tags, "idempotence-checked")
			} else if o3.Panic == "" {
				c.Tags = append(c.Tags, "pruned-data-no-longer-valid")
			}
		}
		if idx%30000 == 0 && !recycle {
			c.Sample = sample
		}
	}
	return c
}

func (p *c19) Finish(a *lib.Aggregate) (broken []string) {
	if a.Nums["members_expected_to_be_pruned"] < 100 || a.Nums["members_expected_to_survive"] < 100 {
		broken = append(broken, "pruning was hardly exercised")
	}
	if a.Tags["idempotence-checked"] == 0 {
		broken = append(broken, "idempotence never checked")
	}
	return
}

// emuMasksBySize lists the non-empty subsets of the recorded C01 deviations, smallest first.
func emuMasksBySize() []int {
	n := len(model.EmuNames)
	masks := make([]int, 0, 1<<n)
	for m := 1; m < 1<<n; m++ {
		masks = append(masks, m)
	}
	sort.Slice(masks, func(i, j int) bool {
		if a, b := bits.OnesCount(uint(masks[i])), bits.OnesCount(uint(masks[j])); a != b {
			return a < b
		}
		return masks[i] < masks[j]
	})
	return masks
}

func emuKeys(m int) []string {
	var keys []string
	for i, name := range model.EmuNames {
		if m&(1<<i) != 0 {
			keys = append(keys, name)
		}
	}
	return keys
}

// explainPrune: the smallest set of recorded deviations under which the model's pruning gives exactly `after`.
func explainPrune(schema, inst, after any) []string {
	for _, m := range emuMasksBySize() {
		described := map[string]bool{}
		mc := &model.Ctx{Root: schema, Formats: strfmt.Default, RequiredSatisfiedByDefault: true, Emu: model.EmuFromMask(m)}
		mc.Applicable(schema, inst, "", func(objPath, member string, present bool, s map[string]any) {
			if present {
				described[objPath+"\x00"+member] = true
			}
		})
		var prune func(v any, path string) any
		prune = func(v any, path string) any {
			switch x := v.(type) {
			case map[string]any:
				out := map[string]any{}
				for k, e := range x {
					if described[path+"\x00"+k] {
						out[k] = prune(e, path+"/"+k)
					}
				}
				return out
			case []any:
				out := make([]any, len(x))
				for i, e := range x {
					out[i] = prune(e, fmt.Sprintf("%s/%d", path, i))
				}
				return out
			}
			return v
		}
		if model.Equal(prune(inst, ""), after) {
			return emuKeys(m)
		}
	}
	return nil
}

// explainDefaults: the smallest set of recorded deviations under which the document after ApplyDefaults is exactly what
// the model demands and allows: present members unchanged, every member the model demands filled with one of its
// defaults, no other member.
func explainDefaults(schema, inst, after any) []string {
	type mk struct{ obj, member string }
	for _, m := range emuMasksBySize() {
		defaults, optional := map[mk][]any{}, map[mk][]any{}
		mc := &model.Ctx{Root: schema, Formats: strfmt.Default, RequiredSatisfiedByDefault: true, Emu: model.EmuFromMask(m)}
		mc.Applicable(schema, inst, "", func(objPath, member string, present bool, s map[string]any) {
			if present || s == nil {
				return
			}
			if t, viaRef := s["x-verif-via-ref"].(map[string]any); viaRef {
				if d, has := t["default"]; has && d != nil {
					optional[mk{objPath, member}] = append(optional[mk{objPath, member}], d)
				}
				return
			}
			if d, has := s["default"]; has && d != nil {
				defaults[mk{objPath, member}] = append(defaults[mk{objPath, member}], d)
			}
		})
		ok := true
		var walk func(before, now any, path string)
		walk = func(before, now any, path string) {
			if !ok {
				return
			}
			switch b := before.(type) {
			case map[string]any:
				n, isObj := now.(map[string]any)
				if !isObj {
					ok = false
					return
				}
				for k, bv := range b {
					nv, still := n[k]
					if !still {
						ok = false
						return
					}
					walk(bv, nv, path+"/"+k)
				}
				for k := range n {
					if _, was := b[k]; was {
						continue
					}
					match := false
					for _, d := range append(append([]any{}, defaults[mk{path, k}]...), optional[mk{path, k}]...) {
						if model.Equal(d, n[k]) {
							match = true
						}
					}
					if !match {
						ok = false
						return
					}
				}
			case []any:
				n, isArr := now.([]any)
				if !isArr || len(n) != len(b) {
					ok = false
					return
				}
				for i := range b {
					walk(b[i], n[i], fmt.Sprintf("%s/%d", path, i))
				}
			default:
				if !model.Equal(before, now) {
					ok = false
				}
			}
		}
		walk(inst, after, "")
		if ok {
			for k := range defaults {
				obj, _ := at(after, k.obj).(map[string]any)
				if obj == nil {
					ok = false
					break
				}
				if _, filled := obj[k.member]; !filled {
					ok = false
					break
				}
			}
		}
		if ok {
			return emuKeys(m)
		}
	}
	return nil
}
