package model

import (
	"sort"
	"strconv"
)

// Applicable walks a VALID instance against a schema and reports, for every member of every object
// present in the data, the schemas which describe it: declared properties (also for absent
// members), matching pattern properties and schema-valued additionalProperties, through every allOf
// member and the selected anyOf / oneOf alternative (first valid alternative for anyOf, the single
// valid one for oneOf), recursively through nested objects and array elements.
// path is a JSON-pointer-like location of the object in the instance.
func (c *Ctx) Applicable(schema any, inst any, path string, visit func(objPath, member string, present bool, s map[string]any)) {
	s, ok := schema.(map[string]any)
	if !ok {
		return
	}
	c.depth++
	defer func() { c.depth-- }()
	if c.depth > maxDepth {
		return
	}
	if ref, ok := s["$ref"].(string); ok {
		t, newRoot, found := c.resolve(ref)
		if !found {
			c.Unresolved = true
			return
		}
		saved := c.Root
		c.Root = newRoot
		c.underRef++
		c.Applicable(t, inst, path, visit)
		c.underRef--
		c.Root = saved
		return
	}
	switch v := inst.(type) {
	case map[string]any:
		props, _ := s["properties"].(map[string]any)
		pats, _ := s["patternProperties"].(map[string]any)
		names := make([]string, 0, len(props))
		for k := range props {
			names = append(names, k)
		}
		sort.Strings(names)
		for _, k := range names {
			ps, _ := props[k].(map[string]any)
			val, present := v[k]
			if _, viaRef := ps["$ref"]; viaRef && !present {
				// an absent member whose property schema is a bare reference: reported under a marker name
				// so that callers can tell "declared through $ref" apart (C18 does not demand its default)
				visit(path, k, present, map[string]any{"x-verif-via-ref": c.deref(ps)})
			} else {
				visit(path, k, present, c.deref(ps))
			}
			if present {
				c.Applicable(ps, val, path+"/"+k, visit)
			}
		}
		keys := make([]string, 0, len(v))
		for k := range v {
			keys = append(keys, k)
		}
		sort.Strings(keys)
		for _, k := range keys {
			_, isProp := props[k]
			matched := false
			pnames := make([]string, 0, len(pats))
			for p := range pats {
				pnames = append(pnames, p)
			}
			sort.Strings(pnames)
			for _, p := range pnames {
				re := compile(p)
				if re == nil || !re.MatchString(k) {
					continue
				}
				matched = true
				ps, _ := pats[p].(map[string]any)
				visit(path, k, true, ps)
				c.Applicable(ps, v[k], path+"/"+k, visit)
			}
			if isProp || matched {
				continue
			}
			if as, ok := s["additionalProperties"].(map[string]any); ok {
				visit(path, k, true, as)
				c.Applicable(as, v[k], path+"/"+k, visit)
			}
		}
	case []any:
		switch items := s["items"].(type) {
		case map[string]any:
			for i, e := range v {
				c.Applicable(items, e, path+"/"+strconv.Itoa(i), visit)
			}
		case []any:
			if len(items) == 0 && c.Emu.EmptyTupleLostUnderRef && c.underRef > 0 {
				if _, has := s["additionalItems"].(map[string]any); has && len(v) > 0 {
					c.fired("empty-tuple-lost-by-reference-expansion")
				}
				break
			}
			for i, e := range v {
				if i < len(items) {
					c.Applicable(items[i], e, path+"/"+strconv.Itoa(i), visit)
				} else if ai, ok := s["additionalItems"].(map[string]any); ok {
					c.Applicable(ai, e, path+"/"+strconv.Itoa(i), visit)
				}
			}
		}
	}
	if all, ok := s["allOf"].([]any); ok {
		for _, sub := range all {
			c.Applicable(sub, inst, path, visit)
		}
	}
	if anyOf, ok := s["anyOf"].([]any); ok {
		for _, sub := range anyOf {
			probe := &Ctx{Root: c.Root, Remotes: c.Remotes, Formats: c.Formats, Emu: c.Emu, RequiredSatisfiedByDefault: c.RequiredSatisfiedByDefault}
			if probe.Valid(sub, inst) {
				c.Applicable(sub, inst, path, visit)
				break
			}
		}
	}
	if oneOf, ok := s["oneOf"].([]any); ok {
		var sel any
		n := 0
		for _, sub := range oneOf {
			probe := &Ctx{Root: c.Root, Remotes: c.Remotes, Formats: c.Formats, Emu: c.Emu, RequiredSatisfiedByDefault: c.RequiredSatisfiedByDefault}
			if probe.Valid(sub, inst) {
				n++
				if sel == nil {
					sel = sub
				}
			}
		}
		if n == 1 {
			c.Applicable(sel, inst, path, visit)
		}
	}
}

// HasKeyword tells whether a keyword occurs anywhere in a schema document.
func HasKeyword(schema any, kw ...string) bool {
	switch x := schema.(type) {
	case map[string]any:
		for _, k := range kw {
			if _, ok := x[k]; ok {
				return true
			}
		}
		for _, v := range x {
			if HasKeyword(v, kw...) {
				return true
			}
		}
	case []any:
		for _, v := range x {
			if HasKeyword(v, kw...) {
				return true
			}
		}
	}
	return false
}

// deref follows a chain of $ref to the schema object that finally describes the member.
func (c *Ctx) deref(s map[string]any) map[string]any {
	for i := 0; i < 50 && s != nil; i++ {
		ref, ok := s["$ref"].(string)
		if !ok {
			return s
		}
		t, _, found := c.resolve(ref)
		if !found {
			return s
		}
		s, _ = t.(map[string]any)
	}
	return s
}
