package model

import (
	_ "embed"
	"encoding/json"
	"fmt"

	"github.com/go-openapi/spec"
)

// The official Swagger 2.0 JSON schema and the draft-04 meta schema it points into, vendored from
// go-openapi/spec v0.21.0 (schemas/v2/schema.json, schemas/jsonschema-draft-04.json).

//go:embed swagger20.json
var swagger20Text []byte

//go:embed jsonschema-draft-04.json
var draft04Text []byte

var (
	Swagger20 any
	draft04   any
)

func init() {
	Swagger20, _ = Parse(swagger20Text)
	draft04, _ = Parse(draft04Text)
}

// SwaggerCtx returns a context for validating raw documents against the Swagger 2.0 schema.
func SwaggerCtx(emu Emu) *Ctx {
	return &Ctx{Root: Swagger20, Remotes: map[string]any{"http://json-schema.org/draft-04/schema": draft04}, Emu: emu, Formats: nil}
}

// CheckVendoredSwaggerSchema verifies that the vendored text is the schema the library validates
// with (doc.Schema() = spec.MustLoadSwagger20Schema()): both are decoded into spec.Schema and compared as JSON.
func CheckVendoredSwaggerSchema() error {
	var mine spec.Schema
	if err := json.Unmarshal(swagger20Text, &mine); err != nil {
		return err
	}
	theirs := spec.MustLoadSwagger20Schema()
	a, _ := json.Marshal(&mine)
	b, _ := json.Marshal(theirs)
	va, _ := Parse(a)
	vb, _ := Parse(b)
	if Canon(va) != Canon(vb) {
		return fmt.Errorf("vendored swagger20.json differs from spec.MustLoadSwagger20Schema()")
	}
	return nil
}
