// Package model holds the reference models the monitors compare the library with.
//
// draft4.go is an independent evaluator of JSON Schema draft 4 over raw JSON values
// (map[string]any, []any, string, bool, nil and json.Number — numbers are compared as exact
// rationals parsed from their decimal text). It shares no code with go-openapi/validate.
package model

import (
	"bytes"
	"encoding/json"
	"fmt"
	"math/big"
	"net/url"
	"regexp"
	"sort"
	"strings"
	"sync"
	"unicode/utf8"

	"github.com/go-openapi/strfmt"
	"github.com/go-openapi/swag"
)

// Emulation switches: each reproduces exactly one recorded deviation of the implementation
// from draft 4 (see known_findings.txt). With every switch off the model is plain draft 4.
type Emu struct {
	NullSkipsComposition bool // a null instance is checked against "type" and "enum" only
	IgnoredMemberNames   bool // additionalProperties:false does not see members named "id" and "$schema"
	MultipleOfFloat      bool // multipleOf decided by float64 division and swag.IsFloat64AJSONInteger (relative tolerance 1e-9)
	IntegerTolerance     bool // "integer" decided by swag.IsFloat64AJSONInteger on the float64 value
	FormatRelaxesType    bool // a schema with "format" whose "type" has neither number nor integer accepts any string or array at the type check
	// EmptyTupleLostUnderRef: go-openapi/spec's reference expander rebuilds what a $ref points to, and an EMPTY
	// items list (a tuple of zero members) does not survive that: below a followed $ref, "items": [] counts as
	// no items at all (additionalItems is then ignored).
	EmptyTupleLostUnderRef bool
}

// Names of the switches, in the order used for subset enumeration.
var EmuNames = []string{"null-skips-composition", "ignored-member-names", "multipleof-float-tolerance", "integer-type-tolerance", "format-relaxes-type", "empty-tuple-lost-by-reference-expansion"}

// EmuFromMask builds a switch set from a bit mask over EmuNames.
func EmuFromMask(m int) Emu {
	return Emu{
		NullSkipsComposition: m&1 != 0,
		IgnoredMemberNames:   m&2 != 0,
		MultipleOfFloat:      m&4 != 0,
		IntegerTolerance:     m&8 != 0,
		FormatRelaxesType:    m&16 != 0,

		EmptyTupleLostUnderRef: m&32 != 0,
	}
}

// Ctx is one evaluation context.
type Ctx struct {
	Root    any            // root schema document for local $ref resolution
	Remotes map[string]any // remote documents by URL (without fragment)
	Formats strfmt.Registry
	Emu     Emu
	// Touched records which keyword groups were evaluated on a non-trivial instance (coverage evidence).
	Touched map[string]int
	// RequiredSatisfiedByDefault makes "required" accept an absent member whose property schema (in the same
	// schema object) declares a default: the library's documented Swagger rule ("if a default value is
	// defined, creates the property from defaults"). Used by C18/C19 only, where defaults are generated.
	RequiredSatisfiedByDefault bool
	// Unresolved is set when a $ref could not be resolved.
	Unresolved bool
	underRef   int // > 0 while evaluating what a followed $ref points to (and everything below it)
	depth      int
	// Fired records emulation switches which changed a decision.
	Fired map[string]bool
}

// Parse decodes JSON text keeping numbers as json.Number.
func Parse(text []byte) (any, error) {
	d := json.NewDecoder(bytes.NewReader(text))
	d.UseNumber()
	var v any
	if err := d.Decode(&v); err != nil {
		return nil, err
	}
	return v, nil
}

// MustParse is Parse for known-good text.
func MustParse(text string) any {
	v, err := Parse([]byte(text))
	if err != nil {
		panic(err)
	}
	return v
}

// Rat converts a JSON number to an exact rational.
func Rat(n json.Number) *big.Rat {
	r, ok := new(big.Rat).SetString(string(n))
	if !ok {
		return nil
	}
	return r
}

func num(v any) (*big.Rat, bool) {
	switch x := v.(type) {
	case json.Number:
		r := Rat(x)
		return r, r != nil
	case float64:
		r := new(big.Rat)
		if r.SetFloat64(x) == nil {
			return nil, false
		}
		return r, true
	case int:
		return new(big.Rat).SetInt64(int64(x)), true
	case int64:
		return new(big.Rat).SetInt64(x), true
	}
	return nil, false
}

// Kind returns the draft-4 primitive type of a raw JSON value ("integer" is reported as "number").
func Kind(v any) string {
	switch v.(type) {
	case nil:
		return "null"
	case bool:
		return "boolean"
	case string:
		return "string"
	case json.Number, float64, int, int64:
		return "number"
	case []any:
		return "array"
	case map[string]any:
		return "object"
	}
	return "?"
}

// Equal is JSON deep equality with numbers compared by value.
func Equal(a, b any) bool {
	ka, kb := Kind(a), Kind(b)
	if ka != kb {
		return false
	}
	switch ka {
	case "null":
		return true
	case "boolean":
		return a.(bool) == b.(bool)
	case "string":
		return a.(string) == b.(string)
	case "number":
		ra, _ := num(a)
		rb, _ := num(b)
		return ra != nil && rb != nil && ra.Cmp(rb) == 0
	case "array":
		xa, xb := a.([]any), b.([]any)
		if len(xa) != len(xb) {
			return false
		}
		for i := range xa {
			if !Equal(xa[i], xb[i]) {
				return false
			}
		}
		return true
	case "object":
		ma, mb := a.(map[string]any), b.(map[string]any)
		if len(ma) != len(mb) {
			return false
		}
		for k, va := range ma {
			vb, ok := mb[k]
			if !ok || !Equal(va, vb) {
				return false
			}
		}
		return true
	}
	return false
}

func (c *Ctx) touch(k string) {
	if c.Touched != nil {
		c.Touched[k]++
	}
}

func (c *Ctx) fired(k string) {
	if c.Fired == nil {
		c.Fired = map[string]bool{}
	}
	c.Fired[k] = true
}

// Resolve follows a reference: local ("#", "#/a/b") in the current root document, or into one of
// the registered remote documents ("http://json-schema.org/draft-04/schema#/properties/title").
func (c *Ctx) Resolve(ref string) (any, bool) {
	t, _, ok := c.resolve(ref)
	return t, ok
}

func (c *Ctx) resolve(ref string) (target any, root any, ok bool) {
	root = c.Root
	p := ref
	if !strings.HasPrefix(ref, "#") {
		i := strings.Index(ref, "#")
		base, frag := ref, ""
		if i >= 0 {
			base, frag = ref[:i], ref[i:]
		}
		doc, found := c.Remotes[base]
		if !found {
			return nil, nil, false
		}
		root = doc
		p = frag
		if p == "" {
			p = "#"
		}
	}
	p = strings.TrimPrefix(p, "#")
	if p == "" {
		return root, root, true
	}
	if !strings.HasPrefix(p, "/") {
		return nil, nil, false
	}
	cur := root
	for _, tok := range strings.Split(p[1:], "/") {
		tok = strings.ReplaceAll(strings.ReplaceAll(tok, "~1", "/"), "~0", "~")
		tok = unescapePercent(tok)
		switch x := cur.(type) {
		case map[string]any:
			nx, ok := x[tok]
			if !ok {
				return nil, nil, false
			}
			cur = nx
		case []any:
			var idx int
			if _, err := fmt.Sscanf(tok, "%d", &idx); err != nil || idx < 0 || idx >= len(x) {
				return nil, nil, false
			}
			cur = x[idx]
		default:
			return nil, nil, false
		}
	}
	return cur, root, true
}

func unescapePercent(s string) string {
	if u, err := url.PathUnescape(s); err == nil {
		return u
	}
	return s
}

const maxDepth = 400

// Valid tells whether inst is valid against schema under draft-4 semantics (modified by c.Emu).
func (c *Ctx) Valid(schema any, inst any) bool {
	s, ok := schema.(map[string]any)
	if !ok {
		return true // not a schema object: no constraint
	}
	c.depth++
	defer func() { c.depth-- }()
	if c.depth > maxDepth {
		c.Unresolved = true // looping reference: outside the model's domain
		return true
	}
	if ref, ok := s["$ref"].(string); ok {
		t, newRoot, found := c.resolve(ref)
		if !found {
			c.Unresolved = true
			return true
		}
		c.touch("$ref")
		saved := c.Root
		c.Root = newRoot
		c.underRef++
		v := c.Valid(t, inst)
		c.underRef--
		c.Root = saved
		return v
	}

	isNull := inst == nil
	valid := true

	if t, ok := s["type"]; ok {
		if !c.typeOK(s, t, inst) {
			valid = false
		}
	}
	if e, ok := s["enum"].([]any); ok {
		c.touch("enum")
		found := false
		for _, ev := range e {
			if Equal(ev, inst) {
				found = true
				break
			}
		}
		if !found {
			valid = false
		}
	}
	if isNull && c.Emu.NullSkipsComposition {
		if hasAny(s, "allOf", "anyOf", "oneOf", "not") {
			c.fired("null-skips-composition")
		}
		return valid
	}

	switch x := inst.(type) {
	case json.Number, float64, int, int64:
		if !c.numberOK(s, x) {
			valid = false
		}
	case string:
		if !c.stringOK(s, x) {
			valid = false
		}
	case []any:
		if !c.arrayOK(s, x) {
			valid = false
		}
	case map[string]any:
		if !c.objectOK(s, x) {
			valid = false
		}
	}

	if all, ok := s["allOf"].([]any); ok {
		c.touch("allOf")
		for _, sub := range all {
			if !c.Valid(sub, inst) {
				valid = false
			}
		}
	}
	if anyOf, ok := s["anyOf"].([]any); ok {
		c.touch("anyOf")
		okAny := false
		for _, sub := range anyOf {
			if c.Valid(sub, inst) {
				okAny = true
				break
			}
		}
		if !okAny {
			valid = false
		}
	}
	if oneOf, ok := s["oneOf"].([]any); ok {
		c.touch("oneOf")
		n := 0
		for _, sub := range oneOf {
			if c.Valid(sub, inst) {
				n++
			}
		}
		if n != 1 {
			valid = false
		}
	}
	if not, ok := s["not"]; ok {
		if _, isObj := not.(map[string]any); isObj {
			c.touch("not")
			if c.Valid(not, inst) {
				valid = false
			}
		}
	}
	return valid
}

func hasAny(s map[string]any, keys ...string) bool {
	for _, k := range keys {
		if _, ok := s[k]; ok {
			return true
		}
	}
	return false
}

func typeList(t any) []string {
	switch x := t.(type) {
	case string:
		return []string{x}
	case []any:
		var out []string
		for _, e := range x {
			if s, ok := e.(string); ok {
				out = append(out, s)
			}
		}
		return out
	}
	return nil
}

func contains(xs []string, s string) bool {
	for _, x := range xs {
		if x == s {
			return true
		}
	}
	return false
}

func (c *Ctx) isInteger(inst any) bool {
	r, ok := num(inst)
	if !ok {
		return false
	}
	exact := r.IsInt()
	if c.Emu.IntegerTolerance {
		f, _ := r.Float64()
		tol := swag.IsFloat64AJSONInteger(f)
		if tol != exact {
			c.fired("integer-type-tolerance")
		}
		return tol
	}
	return exact
}

func (c *Ctx) typeOK(s map[string]any, t any, inst any) bool {
	types := typeList(t)
	if len(types) == 0 {
		return true
	}
	c.touch("type")
	k := Kind(inst)
	ok := false
	switch k {
	case "number":
		ok = contains(types, "number") || (contains(types, "integer") && c.isInteger(inst))
	default:
		ok = contains(types, k)
	}
	if !ok && c.Emu.FormatRelaxesType && (k == "string" || k == "array") {
		if f, isStr := s["format"].(string); isStr && f != "" && !contains(types, "number") && !contains(types, "integer") {
			c.fired("format-relaxes-type")
			return true
		}
	}
	return ok
}

func ratOf(s map[string]any, key string) *big.Rat {
	v, ok := s[key]
	if !ok {
		return nil
	}
	r, ok := num(v)
	if !ok {
		return nil
	}
	return r
}

func (c *Ctx) numberOK(s map[string]any, inst any) bool {
	v, ok := num(inst)
	if !ok {
		return true
	}
	valid := true
	if m := ratOf(s, "maximum"); m != nil {
		c.touch("numeric")
		excl, _ := s["exclusiveMaximum"].(bool)
		if cmp := v.Cmp(m); cmp > 0 || (excl && cmp == 0) {
			valid = false
		}
	}
	if m := ratOf(s, "minimum"); m != nil {
		c.touch("numeric")
		excl, _ := s["exclusiveMinimum"].(bool)
		if cmp := v.Cmp(m); cmp < 0 || (excl && cmp == 0) {
			valid = false
		}
	}
	if m := ratOf(s, "multipleOf"); m != nil {
		c.touch("numeric")
		if !c.MultipleOK(v, m) {
			valid = false
		}
	}
	return valid
}

// MultipleOK decides v multipleOf m (m>0 expected; m<=0 is an error in the implementation: invalid).
func (c *Ctx) MultipleOK(v, m *big.Rat) bool {
	if m.Sign() <= 0 {
		return false
	}
	q := new(big.Rat).Quo(v, m)
	exact := q.IsInt()
	if c.Emu.MultipleOfFloat {
		fv, _ := v.Float64()
		fm, _ := m.Float64()
		var mult float64
		if fm < 1 {
			mult = 1 / fm * fv
		} else {
			mult = fv / fm
		}
		tol := swag.IsFloat64AJSONInteger(mult)
		if tol != exact {
			c.fired("multipleof-float-tolerance")
		}
		return tol
	}
	return exact
}

func intOf(s map[string]any, key string) (int64, bool) {
	r := ratOf(s, key)
	if r == nil || !r.IsInt() {
		return 0, false
	}
	return r.Num().Int64(), true
}

var (
	reMu    sync.Mutex
	reCache = map[string]*regexp.Regexp{}
)

func compile(p string) *regexp.Regexp {
	reMu.Lock()
	defer reMu.Unlock()
	if r, ok := reCache[p]; ok {
		return r
	}
	r, err := regexp.Compile(p)
	if err != nil {
		r = nil
	}
	reCache[p] = r
	return r
}

func (c *Ctx) stringOK(s map[string]any, inst string) bool {
	valid := true
	n := int64(utf8.RuneCountInString(inst))
	if m, ok := intOf(s, "maxLength"); ok {
		c.touch("string")
		if n > m {
			valid = false
		}
	}
	if m, ok := intOf(s, "minLength"); ok {
		c.touch("string")
		if n < m {
			valid = false
		}
	}
	if p, ok := s["pattern"].(string); ok && p != "" {
		c.touch("string")
		re := compile(p)
		if re == nil || !re.MatchString(inst) {
			valid = false // the implementation reports an invalid pattern as a failed match
		}
	}
	if f, ok := s["format"].(string); ok && f != "" && c.Formats != nil && c.Formats.ContainsName(f) {
		c.touch("format")
		if !c.Formats.Validates(f, inst) {
			valid = false
		}
	}
	return valid
}

func (c *Ctx) arrayOK(s map[string]any, inst []any) bool {
	valid := true
	n := int64(len(inst))
	if m, ok := intOf(s, "maxItems"); ok {
		c.touch("array")
		if n > m {
			valid = false
		}
	}
	if m, ok := intOf(s, "minItems"); ok {
		c.touch("array")
		if n < m {
			valid = false
		}
	}
	if u, ok := s["uniqueItems"].(bool); ok && u {
		c.touch("array")
	outer:
		for i := range inst {
			for j := 0; j < i; j++ {
				if Equal(inst[i], inst[j]) {
					valid = false
					break outer
				}
			}
		}
	}
	switch items := s["items"].(type) {
	case map[string]any:
		c.touch("items")
		for _, e := range inst {
			if !c.Valid(items, e) {
				valid = false
			}
		}
	case []any:
		c.touch("tuple")
		if len(items) == 0 && c.Emu.EmptyTupleLostUnderRef && c.underRef > 0 {
			if _, has := s["additionalItems"]; has && len(inst) > 0 {
				c.fired("empty-tuple-lost-by-reference-expansion")
			}
			break
		}
		for i, e := range inst {
			if i < len(items) {
				if !c.Valid(items[i], e) {
					valid = false
				}
				continue
			}
			switch ai := s["additionalItems"].(type) {
			case bool:
				if !ai {
					valid = false
				}
			case map[string]any:
				c.touch("additionalItems")
				if !c.Valid(ai, e) {
					valid = false
				}
			}
		}
	}
	return valid
}

func (c *Ctx) objectOK(s map[string]any, inst map[string]any) bool {
	valid := true
	n := int64(len(inst))
	if m, ok := intOf(s, "maxProperties"); ok {
		c.touch("object")
		if n > m {
			valid = false
		}
	}
	if m, ok := intOf(s, "minProperties"); ok {
		c.touch("object")
		if n < m {
			valid = false
		}
	}
	if req, ok := s["required"].([]any); ok {
		c.touch("required")
		for _, r := range req {
			if k, isStr := r.(string); isStr {
				if _, present := inst[k]; !present {
					if c.RequiredSatisfiedByDefault && c.propertyHasDefault(s, k) {
						continue
					}
					valid = false
				}
			}
		}
	}
	props, _ := s["properties"].(map[string]any)
	pats, _ := s["patternProperties"].(map[string]any)
	addl, hasAddl := s["additionalProperties"]
	keys := make([]string, 0, len(inst))
	for k := range inst {
		keys = append(keys, k)
	}
	sort.Strings(keys)
	for _, k := range keys {
		v := inst[k]
		described := false
		if ps, ok := props[k]; ok {
			c.touch("properties")
			described = true
			if !c.Valid(ps, v) {
				valid = false
			}
		}
		for p, ps := range pats {
			re := compile(p)
			if re == nil || !re.MatchString(k) {
				continue
			}
			c.touch("patternProperties")
			described = true
			if !c.Valid(ps, v) {
				valid = false
			}
		}
		if described || !hasAddl {
			continue
		}
		switch a := addl.(type) {
		case bool:
			c.touch("additionalProperties")
			if !a {
				if c.Emu.IgnoredMemberNames && (k == "id" || k == "$schema") {
					c.fired("ignored-member-names")
					continue
				}
				valid = false
			}
		case map[string]any:
			c.touch("additionalProperties")
			if !c.Valid(a, v) {
				valid = false
			}
		}
	}
	if deps, ok := s["dependencies"].(map[string]any); ok {
		for k, d := range deps {
			if _, present := inst[k]; !present {
				continue
			}
			c.touch("dependencies")
			switch dd := d.(type) {
			case []any:
				for _, r := range dd {
					if rk, isStr := r.(string); isStr {
						if _, p := inst[rk]; !p {
							valid = false
						}
					}
				}
			case map[string]any:
				if !c.Valid(dd, inst) {
					valid = false
				}
			}
		}
	}
	return valid
}

// propertyHasDefault tells whether properties[k] of s declares a non-null default. The library looks at the
// property schema as it stands when the object validator is built: a bare, not yet expanded $ref has none.
func (c *Ctx) propertyHasDefault(s map[string]any, k string) bool {
	props, _ := s["properties"].(map[string]any)
	ps, _ := props[k].(map[string]any)
	if ps == nil {
		return false
	}
	d, has := ps["default"]
	return has && d != nil
}

// Canon renders a raw JSON value canonically (sorted keys, numbers as given).
func Canon(v any) string {
	var b strings.Builder
	canon(&b, v)
	return b.String()
}

func canon(b *strings.Builder, v any) {
	switch x := v.(type) {
	case nil:
		b.WriteString("null")
	case bool:
		if x {
			b.WriteString("true")
		} else {
			b.WriteString("false")
		}
	case string:
		e, _ := json.Marshal(x)
		b.Write(e)
	case json.Number:
		b.WriteString(string(x))
	case float64:
		e, _ := json.Marshal(x)
		b.Write(e)
	case int:
		fmt.Fprintf(b, "%d", x)
	case int64:
		fmt.Fprintf(b, "%d", x)
	case []any:
		b.WriteByte('[')
		for i, e := range x {
			if i > 0 {
				b.WriteByte(',')
			}
			canon(b, e)
		}
		b.WriteByte(']')
	case map[string]any:
		keys := make([]string, 0, len(x))
		for k := range x {
			keys = append(keys, k)
		}
		sort.Strings(keys)
		b.WriteByte('{')
		for i, k := range keys {
			if i > 0 {
				b.WriteByte(',')
			}
			e, _ := json.Marshal(k)
			b.Write(e)
			b.WriteByte(':')
			canon(b, x[k])
		}
		b.WriteByte('}')
	default:
		e, _ := json.Marshal(x)
		b.Write(e)
	}
}
