package model

import (
	"math"
	"math/big"
	"reflect"
	"strconv"
	"unicode/utf8"

	"github.com/go-openapi/strfmt"
)

// SimpleDef is a Swagger 2.0 simple schema (non-body parameter, header, items).
type SimpleDef struct {
	Type        string
	Format      string
	Enum        []any // values as carried by the definition (float64/string/bool from JSON, or typed Go values when EnumTyped)
	EnumTyped   bool
	Maximum     *float64
	Minimum     *float64
	ExclMax     bool
	ExclMin     bool
	MultipleOf  *float64
	MaxLength   *int64
	MinLength   *int64
	Pattern     string
	MaxItems    *int64
	MinItems    *int64
	UniqueItems bool
	Items       *SimpleDef
	Required    bool // parameters only
}

// SimpleEmu are the recorded deviations which touch simple-schema validation.
type SimpleEmu struct {
	FormatRelaxesType bool // type.go:200-202: with a format and a non-numeric declared type, strings and slices skip the type check
	MultipleOfFloat   bool // values.go MultipleOf: float64 division + relative tolerance
	EnumConvert       bool // validator.go basicCommonValidator: membership by reflect.Convert to the enum member's Go type
	HeaderEmptyString bool // validator.go (*HeaderValidator).stringValidator: built with required=true, so "" is "required" whatever the header declares
	ByteSliceIsString bool // type.go schemaInfoForType: a []uint8 value is taken for a (binary) string, never for an array of integers
}

var SimpleEmuNames = []string{"format-relaxes-type", "multipleof-float-tolerance", "enum-convert", "header-empty-string-required", "byte-slice-taken-for-string"}

func SimpleEmuFromMask(m int) SimpleEmu {
	return SimpleEmu{FormatRelaxesType: m&1 != 0, MultipleOfFloat: m&2 != 0, EnumConvert: m&4 != 0, HeaderEmptyString: m&8 != 0, ByteSliceIsString: m&16 != 0}
}

// SimpleCtx evaluates typed Go values against simple schemas.
type SimpleCtx struct {
	Formats strfmt.Registry
	Emu     SimpleEmu
	Header  bool // the definition is a response header (not a parameter)
	Fired   map[string]bool
	// OutOfDomain is set when the value is outside what the property quantifies over
	// (nil elements, maps, structs, []byte, named types).
	OutOfDomain bool
}

func (c *SimpleCtx) fired(k string) {
	if c.Fired == nil {
		c.Fired = map[string]bool{}
	}
	c.Fired[k] = true
}

// GoRat converts a Go numeric value to an exact rational.
func GoRat(v any) (*big.Rat, bool) {
	rv := reflect.ValueOf(v)
	switch rv.Kind() { //nolint:exhaustive
	case reflect.Int, reflect.Int8, reflect.Int16, reflect.Int32, reflect.Int64:
		return new(big.Rat).SetInt64(rv.Int()), true
	case reflect.Uint, reflect.Uint8, reflect.Uint16, reflect.Uint32, reflect.Uint64:
		return new(big.Rat).SetInt(new(big.Int).SetUint64(rv.Uint())), true
	case reflect.Float32, reflect.Float64:
		f := rv.Float()
		if math.IsNaN(f) || math.IsInf(f, 0) {
			return nil, false
		}
		return new(big.Rat).SetFloat64(f), true
	}
	return nil, false
}

func goKind(v any) string {
	if v == nil {
		return "nil"
	}
	rv := reflect.ValueOf(v)
	switch rv.Kind() { //nolint:exhaustive
	case reflect.Bool:
		return "boolean"
	case reflect.String:
		if rv.Type() != reflect.TypeOf("") {
			return "?"
		}
		return "string"
	case reflect.Int, reflect.Int8, reflect.Int16, reflect.Int32, reflect.Int64, reflect.Uint, reflect.Uint8, reflect.Uint16, reflect.Uint32, reflect.Uint64:
		return "integer"
	case reflect.Float32, reflect.Float64:
		return "number"
	case reflect.Slice:
		if rv.Type().Elem().Kind() == reflect.Uint8 && rv.Type() != reflect.TypeOf([]uint8(nil)) {
			return "?"
		}
		return "array"
	}
	return "?"
}

var (
	two31  = new(big.Rat).SetInt(new(big.Int).Lsh(big.NewInt(1), 31))
	two32  = new(big.Rat).SetInt(new(big.Int).Lsh(big.NewInt(1), 32))
	two63  = new(big.Rat).SetInt(new(big.Int).Lsh(big.NewInt(1), 63))
	two64  = new(big.Rat).SetInt(new(big.Int).Lsh(big.NewInt(1), 64))
	maxF32 = new(big.Rat).SetFloat64(math.MaxFloat32)
)

// inFormatRange tells whether a number fits the declared numeric type and format.
func inFormatRange(typ, format string, r *big.Rat) bool {
	neg := func(x *big.Rat) *big.Rat { return new(big.Rat).Neg(x) }
	switch typ {
	case "integer":
		if !r.IsInt() {
			return false
		}
		switch format {
		case "int32":
			return r.Cmp(neg(two31)) >= 0 && r.Cmp(two31) < 0
		case "uint32":
			return r.Sign() >= 0 && r.Cmp(two32) < 0
		case "uint64":
			return r.Sign() >= 0 && r.Cmp(two64) < 0
		default:
			return r.Cmp(neg(two63)) >= 0 && r.Cmp(two63) < 0
		}
	case "number":
		switch format {
		case "float", "float32":
			return new(big.Rat).Abs(r).Cmp(maxF32) <= 0
		}
	}
	return true
}

// Valid decides whether v is valid for d: it has the declared type (and fits its format) and
// meets every declared constraint at every nesting level of its items. nil is not validated.
func (c *SimpleCtx) Valid(d *SimpleDef, v any, top bool) bool {
	if v == nil {
		if !top {
			c.OutOfDomain = true
		}
		return true
	}
	k := goKind(v)
	if k == "?" {
		c.OutOfDomain = true
		return true
	}
	if c.Emu.ByteSliceIsString && reflect.TypeOf(v) == reflect.TypeOf([]uint8(nil)) {
		// recorded deviation: the value counts as a string for the type check, and no string, array or items
		// constraint looks at it afterwards (their validators apply to string / slice-of-items kinds only)
		c.fired("byte-slice-taken-for-string")
		k = "bytes"
	}
	typeOK := false
	switch d.Type {
	case "string", "boolean", "array":
		typeOK = k == d.Type || (k == "bytes" && d.Type == "string")
	case "integer":
		if k == "integer" {
			typeOK = true
		} else if k == "number" {
			r, ok := GoRat(v)
			typeOK = ok && r.IsInt()
		}
	case "number":
		typeOK = k == "integer" || k == "number"
	default:
		c.OutOfDomain = true
		return true
	}
	if !typeOK {
		if c.Emu.FormatRelaxesType && d.Format != "" && d.Type != "number" && d.Type != "integer" && (k == "string" || k == "array") {
			c.fired("format-relaxes-type")
		} else {
			return false
		}
	}
	valid := true
	switch k {
	case "integer", "number":
		r, ok := GoRat(v)
		if !ok {
			c.OutOfDomain = true
			return true
		}
		if (d.Type == "integer" || d.Type == "number") && !inFormatRange(d.Type, d.Format, r) {
			valid = false
		}
		if d.Maximum != nil {
			m := new(big.Rat).SetFloat64(*d.Maximum)
			if cmp := r.Cmp(m); cmp > 0 || (d.ExclMax && cmp == 0) {
				valid = false
			}
		}
		if d.Minimum != nil {
			m := new(big.Rat).SetFloat64(*d.Minimum)
			if cmp := r.Cmp(m); cmp < 0 || (d.ExclMin && cmp == 0) {
				valid = false
			}
		}
		if d.MultipleOf != nil {
			m := DecRat(*d.MultipleOf)
			mc := &Ctx{Emu: Emu{MultipleOfFloat: c.Emu.MultipleOfFloat && k == "number"}}
			if !mc.MultipleOK(r, m) {
				valid = false
			}
			if mc.Fired["multipleof-float-tolerance"] {
				c.fired("multipleof-float-tolerance")
			}
		}
	case "string":
		s := v.(string)
		n := int64(utf8.RuneCountInString(s))
		if d.Required && top && s == "" {
			valid = false
		}
		if c.Emu.HeaderEmptyString && c.Header && top && s == "" {
			c.fired("header-empty-string-required")
			valid = false
		}
		if d.MaxLength != nil && n > *d.MaxLength {
			valid = false
		}
		if d.MinLength != nil && n < *d.MinLength {
			valid = false
		}
		if d.Pattern != "" {
			re := compile(d.Pattern)
			if re == nil || !re.MatchString(s) {
				valid = false
			}
		}
		if d.Format != "" && c.Formats != nil && c.Formats.ContainsName(d.Format) && !c.Formats.Validates(d.Format, s) {
			valid = false
		}
	case "array":
		rv := reflect.ValueOf(v)
		n := int64(rv.Len())
		if d.MinItems != nil && n < *d.MinItems {
			valid = false
		}
		if d.MaxItems != nil && n > *d.MaxItems {
			valid = false
		}
		if d.UniqueItems {
		outer:
			for i := 0; i < rv.Len(); i++ {
				for j := 0; j < i; j++ {
					if reflect.DeepEqual(rv.Index(i).Interface(), rv.Index(j).Interface()) {
						valid = false
						break outer
					}
				}
			}
		}
		if d.Items != nil {
			for i := 0; i < rv.Len(); i++ {
				if !c.Valid(d.Items, rv.Index(i).Interface(), false) {
					valid = false
				}
			}
		}
	}
	if len(d.Enum) > 0 {
		if !c.enumOK(d.Enum, v) {
			valid = false
		}
	}
	return valid
}

// DecRat is the rational denoted by the shortest decimal text of a float64: the mathematical value
// of a constraint written as a decimal fraction (0.1 means one tenth, not its binary neighbour).
func DecRat(f float64) *big.Rat {
	r, ok := new(big.Rat).SetString(strconv.FormatFloat(f, 'g', -1, 64))
	if !ok {
		return new(big.Rat).SetFloat64(f)
	}
	return r
}

// GoEqual is deep value equality which treats numerically equal numbers of different Go types as equal.
func GoEqual(a, b any) bool {
	ra, oka := GoRat(a)
	rb, okb := GoRat(b)
	if oka && okb {
		return ra.Cmp(rb) == 0
	}
	if oka != okb {
		return false
	}
	return reflect.DeepEqual(a, b)
}

func (c *SimpleCtx) enumOK(enum []any, v any) bool {
	exact := false
	for _, e := range enum {
		if GoEqual(e, v) {
			exact = true
			break
		}
	}
	if c.Emu.EnumConvert {
		conv := false
		for _, e := range enum {
			at := reflect.TypeOf(e)
			if at == nil {
				continue
			}
			ev := reflect.ValueOf(v)
			if ev.IsValid() && ev.Type().ConvertibleTo(at) && reflect.DeepEqual(ev.Convert(at).Interface(), e) {
				conv = true
				break
			}
		}
		if conv != exact {
			c.fired("enum-convert")
		}
		return conv
	}
	return exact
}
