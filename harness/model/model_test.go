package model

import "testing"

func TestSelfCheck(t *testing.T) {
	n, err := SelfCheck()
	t.Log(n)
	if err != nil {
		t.Fatal(err)
	}
}
