package model

import "testing"

func TestSelfCheck(t *testing.T) {
	n, err := SelfCheck()
	t.Log(n)
	if err != nil {
		t.Fatal(err)
	}
}

func TestSwagger(t *testing.T) {
	if err := CheckVendoredSwaggerSchema(); err != nil {
		t.Fatal(err)
	}
	doc := MustParse(`{"swagger":"2.0","info":{"title":"t","version":"1"},"paths":{"/a":{"get":{"responses":{"200":{"description":"ok"}}}}}}`)
	c := SwaggerCtx(Emu{})
	if !c.Valid(Swagger20, doc) || c.Unresolved {
		t.Fatal("minimal document should be valid", c.Unresolved)
	}
	bad := MustParse(`{"swagger":"2.0","info":{"title":"t"},"paths":{}}`)
	c = SwaggerCtx(Emu{})
	if c.Valid(Swagger20, bad) {
		t.Fatal("missing version should be invalid")
	}
	bad2 := MustParse(`{"swagger":"2.0","info":{"title":"t","version":"1"},"paths":{"/a":{"get":{"parameters":[{"name":"x","in":"query","type":"arrayy"}],"responses":{"200":{"description":"ok"}}}}}}`)
	c = SwaggerCtx(Emu{})
	if c.Valid(Swagger20, bad2) || c.Unresolved {
		t.Fatal("unknown parameter type should be invalid")
	}
}
