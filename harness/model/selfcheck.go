package model

import (
	"fmt"
	"os"
	"path/filepath"
	"sort"

	"github.com/go-openapi/strfmt"
)

// RepoDir is the go-openapi/validate tree whose fixtures are used (VERIF_REPO, default /repo).
func RepoDir() string {
	if d := os.Getenv("VERIF_REPO"); d != "" {
		return d
	}
	return "/repo"
}

// SelfCheck runs the draft-4 model (all emulations off) over every labelled instance of the
// JSON-Schema-Test-Suite shipped in the repository's fixtures and returns the number of labelled
// instances it agreed on. Any disagreement is an error: the model is not trusted then.
func SelfCheck() (int, error) {
	dir := filepath.Join(RepoDir(), "fixtures", "jsonschema_suite")
	files, err := filepath.Glob(filepath.Join(dir, "*.json"))
	if err != nil || len(files) == 0 {
		return 0, fmt.Errorf("no suite files under %s", dir)
	}
	sort.Strings(files)
	agreed := 0
	for _, f := range files {
		base := filepath.Base(f)
		if base == "refRemote.json" {
			continue
		}
		b, err := os.ReadFile(f)
		if err != nil {
			return agreed, err
		}
		doc, err := Parse(b)
		if err != nil {
			return agreed, fmt.Errorf("%s: %v", base, err)
		}
		for _, g := range doc.([]any) {
			grp := g.(map[string]any)
			schema := grp["schema"]
			for _, t := range grp["tests"].([]any) {
				tc := t.(map[string]any)
				c := &Ctx{Root: schema, Formats: strfmt.Default}
				got := c.Valid(schema, tc["data"])
				if c.Unresolved {
					continue // remote reference: outside the model
				}
				if got != tc["valid"].(bool) {
					return agreed, fmt.Errorf("model disagrees with suite: %s / %v / %v: model=%v", base, grp["description"], tc["description"], got)
				}
				agreed++
			}
		}
	}
	if agreed < 250 {
		return agreed, fmt.Errorf("only %d suite instances evaluated", agreed)
	}
	return agreed, nil
}
