// Package hist generates and runs histories: sequences of calls through the recycling entry points
// (one-shot schema validation, single-use recycling schema / parameter / header validators,
// whole-specification validation), each with a reference execution through the non-recycling API.
package hist

import (
	"bytes"
	"encoding/json"
	"fmt"
	"regexp"
	"strings"

	"github.com/go-openapi/spec"
	"github.com/go-openapi/strfmt"
	"github.com/go-openapi/validate"

	"verif/harness/gen"
	"verif/harness/lib"
	"verif/harness/model"
	"verif/harness/sut"
)

// Op is one call of a history.
type Op struct {
	Kind     string // against | schema-recycled | param | header | spec
	Tag      string // unique tag woven into the names of this call: a message carrying another tag is a leak
	Schema   []byte
	Inst     []byte
	Carrier  string // float64 | json.Number
	OptSet   string // "" | swagger | object-array-type | array-must-have-items | skip-schemata (schema ops only)
	Def      *model.SimpleDef
	Val      any
	Doc      []byte
	Continue bool
	Formats  strfmt.Registry `json:"-"`
	Early    string // which early exit this op aims at (evidence)
}

var tagRe = regexp.MustCompile(`T\d+Q`)

// ForeignTags lists tags other than the op's own which occur in the messages of an outcome.
func (op *Op) ForeignTags(msgs []string) []string {
	var out []string
	for _, m := range msgs {
		for _, t := range tagRe.FindAllString(m, -1) {
			if t != op.Tag {
				out = append(out, t)
			}
		}
		if strings.Contains(m, validate.VerifPoisonMark) {
			out = append(out, validate.VerifPoisonMark)
		}
	}
	return out
}

// Options tune the generator.
type Options struct {
	SpecDocs  [][]byte // documents for spec ops (nil: no spec ops)
	SpecEvery int      // one spec op every N ops on average (0: none)
	FormatsFn func() strfmt.Registry
	FormatName string  // when set, schemas/params are salted with this format name (C11)
}

// Gen generates a history of n calls.
func Gen(r *lib.Rand, n int, base int, o Options) []*Op {
	ops := make([]*Op, 0, n)
	for i := 0; i < n; i++ {
		tag := fmt.Sprintf("T%dQ", base+i)
		op := &Op{Tag: tag, Carrier: "float64"}
		if o.FormatsFn != nil {
			op.Formats = o.FormatsFn()
		} else {
			op.Formats = strfmt.Default
		}
		k := r.Weighted(5, 3, 2, 2)
		if o.SpecEvery > 0 && len(o.SpecDocs) > 0 && r.Intn(o.SpecEvery) == 0 {
			k = 4
		}
		switch k {
		case 0, 1:
			op.Kind = "against"
			if k == 1 {
				op.Kind = "schema-recycled"
			}
			g := &gen.SchemaGen{R: r, O: gen.SchemaOpts{MaxDepth: 3, Refs: true, SpecialNames: true, Defaults: r.P(0.3)}}
			inner := g.Document()
			defs := inner["definitions"]
			delete(inner, "definitions")
			if o.FormatName != "" {
				saltFormat(r, inner, o.FormatName)
			}
			if r.P(0.15) {
				if _, isRef := inner["$ref"]; !isRef {
					inner["nullable"] = true // go-openapi extension: null is accepted on top of the declared types
				}
			}
			stress := false
			if r.P(0.12) {
				// composition stress: 2-5 small alternatives over a scalar, so that every order of failing and
				// validating alternatives (fail-valid-valid, valid-fail, none, all ...) occurs under each keyword
				inner = compositionStress(r)
				stress = true
			}
			var inst any
			switch r.Intn(10) {
			case 0:
				inst = nil
				op.Early = "nil-member"
			case 1, 2, 3:
				inst = g.FreeValue(2)
			default:
				inst = g.Instance(inner, inner, 0, 0.3)
			}
			if stress && r.P(0.85) {
				inst = []any{gen.I(r.Range(0, 7)), "s", gen.N("2.5"), true}[r.Weighted(6, 1, 1, 1)]
			}
			doc := map[string]any{"type": "object", "properties": map[string]any{tag: inner}}
			if defs != nil {
				doc["definitions"] = defs
			}
			var wrapped any = map[string]any{tag: inst}
			switch r.Intn(14) {
			case 0:
				// early exit: nil data at the top
				wrapped = nil
				op.Early = "nil-data"
			case 1:
				// early exit: json.Number which cannot be converted
				doc = map[string]any{"type": "integer", "maximum": gen.I(5), "title": tag}
				wrapped = gen.N("1.5")
				op.Carrier = "json.Number"
				op.Early = "failed-number-conversion"
			case 2:
				doc = map[string]any{"type": "number", "title": tag}
				wrapped = gen.N("1e400")
				op.Carrier = "json.Number"
				op.Early = "failed-number-conversion"
			case 3:
				// a scalar: most child validators do not apply
				wrapped = g.FreeValue(0)
				op.Early = "scalar-at-root"
			case 4:
				op.Carrier = "json.Number"
			}
			if r.P(0.3) {
				// the same call under one of the option sets the specification validator uses piecewise
				op.OptSet = r.Pick("swagger", "object-array-type", "array-must-have-items", "skip-schemata")
				if op.OptSet != "skip-schemata" && r.P(0.6) {
					// a schema-shaped instance under a cut-down meta schema: object validators sit at paths ending in
					// properties / default / example / items, where the Swagger-specific pre-checks look at the path
					g2 := &gen.SchemaGen{R: r, O: gen.SchemaOpts{MaxDepth: 3, SpecialNames: true, Defaults: true}}
					shaped := g2.Document()
					if r.P(0.5) {
						g2.Degenerate(shaped, false)
					}
					node := "#/definitions/s" + tag
					doc = map[string]any{"type": "object", "properties": map[string]any{tag: map[string]any{"$ref": node}},
						"definitions": map[string]any{"s" + tag: map[string]any{"type": "object", "properties": map[string]any{
							"properties":           map[string]any{"type": "object", "additionalProperties": map[string]any{"$ref": node}},
							"patternProperties":    map[string]any{"type": "object", "additionalProperties": map[string]any{"$ref": node}},
							"definitions":          map[string]any{"type": "object", "additionalProperties": map[string]any{"$ref": node}},
							"items":                map[string]any{"$ref": node},
							"additionalProperties": map[string]any{"$ref": node},
							"not":                  map[string]any{"$ref": node},
							"default":              map[string]any{"type": []any{"object", "array", "string", "number", "boolean", "null"}, "properties": map[string]any{"items": map[string]any{}}},
							"example":              map[string]any{"type": "object", "additionalProperties": map[string]any{}},
							"allOf":                map[string]any{"type": "array", "items": map[string]any{"$ref": node}},
							"anyOf":                map[string]any{"type": "array", "items": map[string]any{"$ref": node}},
						}}}}
					wrapped = map[string]any{tag: shaped}
					op.Early = ""
					op.Carrier = "float64"
				}
			}
			if r.P(0.04) {
				// a wide failing object: several dozen distinct messages in one result (sizes around the powers of
				// two where an implementation may switch from scanning to indexing)
				nm := []int{17, 33, 40, 65}[r.Intn(4)]
				props, members := map[string]any{}, map[string]any{}
				for k := 0; k < nm; k++ {
					props[fmt.Sprintf("m%02d", k)] = map[string]any{"type": "integer"}
					members[fmt.Sprintf("m%02d", k)] = "x"
				}
				if r.Bool() {
					members["m07"] = gen.I(7) // one member is fine
				}
				doc = map[string]any{"type": "object", "properties": map[string]any{tag: map[string]any{"type": "object", "properties": props}}}
				wrapped = map[string]any{tag: members}
				op.Early, op.Carrier, op.OptSet = "", "float64", ""
			}
			op.Schema, op.Inst = gen.JSON(doc), gen.JSON(wrapped)
			if r.P(0.012) {
				// no schema at all: the one-shot entry point and the constructors take a nil *spec.Schema (nothing is validated)
				op.Schema = nil
				op.Early, op.OptSet = "nil-schema", ""
			}
		case 2, 3:
			op.Kind = "param"
			if k == 3 {
				op.Kind = "header"
			}
			sg := &gen.SimpleGen{R: r}
			op.Def = sg.Definition(r.Range(0, 3))
			if o.FormatName != "" && op.Def.Type == "string" {
				op.Def.Format = o.FormatName
			}
			if o.FormatName != "" && op.Def.Items != nil && op.Def.Items.Type == "string" {
				op.Def.Items.Format = o.FormatName
			}
			op.Val = sg.Value(op.Def, 0.4)
			if r.Intn(12) == 0 {
				op.Val = nil
				op.Early = "nil-data"
			}
			if s, ok := op.Val.(string); ok && s == "" {
				op.Val = "v"
			}
		default:
			op.Kind = "spec"
			op.Doc = o.SpecDocs[r.Intn(len(o.SpecDocs))]
			op.Continue = r.Bool()
			if t := tagRe.Find(op.Doc); t != nil {
				op.Tag = string(t) // a document carries its own tag in all its names
			}
		}
		ops = append(ops, op)
	}
	// verbatim repeats: some calls are exact copies of an earlier call of the history (same tag, schema, instance,
	// options), so that whatever is remembered by message text or by name meets the same texts and names again
	for i := 1; i < len(ops); i++ {
		if r.P(0.08) {
			j := r.Intn(i)
			if ops[j].Kind != "spec" {
				cp := *ops[j]
				ops[i] = &cp
			}
		}
	}
	return ops
}

// saltFormat sprinkles a format name over the string schemas of a schema tree (and adds some).
func saltFormat(r *lib.Rand, s map[string]any, name string) {
	if t, _ := s["type"].(string); t == "string" {
		s["format"] = name
	}
	for _, k := range []string{"properties", "patternProperties", "definitions"} {
		if m, ok := s[k].(map[string]any); ok {
			for _, kk := range keysOf(m) {
				if sub, ok := m[kk].(map[string]any); ok {
					saltFormat(r, sub, name)
				}
			}
		}
	}
	for _, k := range []string{"items", "additionalProperties", "additionalItems", "not"} {
		if sub, ok := s[k].(map[string]any); ok {
			saltFormat(r, sub, name)
		}
		if arr, ok := s[k].([]any); ok {
			for _, e := range arr {
				if sub, ok := e.(map[string]any); ok {
					saltFormat(r, sub, name)
				}
			}
		}
	}
	for _, k := range []string{"allOf", "anyOf", "oneOf"} {
		if arr, ok := s[k].([]any); ok {
			for _, e := range arr {
				if sub, ok := e.(map[string]any); ok {
					saltFormat(r, sub, name)
				}
			}
		}
	}
	if len(s) == 0 && r.P(0.5) {
		s["type"] = "string"
		s["format"] = name
	}
}

func keysOf(m map[string]any) []string {
	out := make([]string, 0, len(m))
	for k := range m {
		out = append(out, k)
	}
	for i := 1; i < len(out); i++ {
		for j := i; j > 0 && out[j] < out[j-1]; j-- {
			out[j], out[j-1] = out[j-1], out[j]
		}
	}
	return out
}

// The option lists are process-wide values with spare capacity, shared by every call (and, in the
// concurrent runs, by every goroutine), the way a program keeps its validation options in one variable:
// the library may read them, it must not write into the caller's slice.
var sharedOptionSets = map[string][]validate.Option{
	"swagger":               append(make([]validate.Option, 0, 8), validate.SwaggerSchema(true)),
	"object-array-type":     append(make([]validate.Option, 0, 8), validate.EnableObjectArrayTypeCheck(true)),
	"array-must-have-items": append(make([]validate.Option, 0, 8), validate.EnableArrayMustHaveItemsCheck(true)),
	"skip-schemata":         append(make([]validate.Option, 0, 8), validate.WithSkipSchemataResult(true)),
	"":                      make([]validate.Option, 0, 8),
}

// options are the validation options of a schema op (a shared slice: never append to it in the harness).
func (op *Op) options() []validate.Option {
	return sharedOptionSets[op.OptSet]
}

func (op *Op) value() (any, error) {
	if op.Carrier == "json.Number" {
		d := json.NewDecoder(bytes.NewReader(op.Inst))
		d.UseNumber()
		var v any
		err := d.Decode(&v)
		return v, err
	}
	return sut.Value(op.Inst)
}

// Run executes the call: through the recycling entry point, or through the non-recycling API (reference).
func (op *Op) Run(recycling bool) sut.Outcome {
	switch op.Kind {
	case "against", "schema-recycled":
		return sut.Guard(func() sut.Outcome {
			var s *spec.Schema
			var err error
			if op.Schema != nil {
				if s, err = sut.Schema(op.Schema); err != nil {
					return sut.Outcome{Panic: "harness: schema does not decode"}
				}
			}
			v, err := op.value()
			if err != nil {
				return sut.Outcome{Panic: "harness: instance does not decode"}
			}
			opts := op.options()
			switch {
			case !recycling:
				return sut.FromResult(validate.NewSchemaValidator(s, nil, "", op.Formats, opts...).Validate(v))
			case op.Kind == "against":
				return sut.FromError(validate.AgainstSchema(s, v, op.Formats, opts...))
			default:
				return sut.FromResult(validate.NewSchemaValidator(s, nil, "", op.Formats, append(append([]validate.Option(nil), opts...), validate.WithRecycleValidators(true))...).Validate(v))
			}
		})
	case "param", "header":
		return sut.Guard(func() sut.Outcome {
			sg := &gen.SimpleGen{}
			var opts []validate.Option
			if recycling {
				opts = append(opts, validate.WithRecycleValidators(true))
			}
			if op.Kind == "header" {
				return sut.FromResult(validate.NewHeaderValidator("X-"+op.Tag, sg.Header(op.Def), op.Formats, opts...).Validate(op.Val))
			}
			return sut.FromResult(validate.NewParamValidator(sg.Param(op.Def, op.Tag, "query"), op.Formats, opts...).Validate(op.Val))
		})
	default:
		doc, err := sut.LoadSpec(op.Doc)
		if err != nil {
			return sut.Outcome{Panic: "harness: document does not load: " + err.Error()}
		}
		o := sut.ValidateDocWith(doc, sut.SpecOpts{Continue: op.Continue, Strict: true}, op.Formats)
		return sut.Outcome{Valid: o.Valid, Errors: o.Errors, Warnings: o.Warnings, Panic: o.Panic, Stack: o.Stack}
	}
}

// Render describes the op for witnesses.
func (op *Op) Render() map[string]any {
	m := map[string]any{"kind": op.Kind, "tag": op.Tag}
	switch op.Kind {
	case "against", "schema-recycled":
		m["schema"], m["instance"], m["carrier"] = string(op.Schema), string(op.Inst), op.Carrier
		if op.OptSet != "" {
			m["options"] = op.OptSet
		}
	case "param", "header":
		m["definition"], m["value"] = fmt.Sprintf("%+v", *op.Def), fmt.Sprintf("%T(%#v)", op.Val, op.Val)
		if op.Def.Items != nil {
			m["items"] = fmt.Sprintf("%+v", *op.Def.Items)
		}
	default:
		m["document"], m["continue_on_errors"] = string(op.Doc), op.Continue
	}
	if op.Early != "" {
		m["early_exit"] = op.Early
	}
	return m
}

// SpecDocs builds a small pool of specification documents for spec ops.
func SpecDocs(r *lib.Rand, n int) [][]byte {
	var out [][]byte
	for i := 0; i < n; i++ {
		g := &gen.SpecGen{R: r, Tag: fmt.Sprintf("T%dQ", 900000+i)}
		tree := g.Clean()
		switch i % 4 {
		case 1:
			g.ApplyMulti()
		case 2:
			g.Apply(gen.Faults[r.Intn(len(gen.Faults))])
		}
		out = append(out, gen.JSON(tree))
	}
	return out
}

// compositionStress builds {keyword: [alternatives...]} (sometimes two keywords, sometimes nested once) from a pool of
// one-constraint alternatives which an integer 0..7 satisfies or not.
func compositionStress(r *lib.Rand) map[string]any {
	alt := func() any {
		switch r.Intn(9) {
		case 0:
			return map[string]any{"type": "string"}
		case 1:
			return map[string]any{"type": "integer"}
		case 2:
			return map[string]any{"minimum": gen.I(r.Range(1, 5))}
		case 3:
			return map[string]any{"maximum": gen.I(r.Range(1, 5))}
		case 4:
			return map[string]any{"multipleOf": gen.I(r.Range(2, 3))}
		case 5:
			return map[string]any{"enum": []any{gen.I(r.Range(0, 7)), gen.I(r.Range(0, 7))}}
		case 6:
			return map[string]any{}
		case 7:
			return map[string]any{"not": map[string]any{"minimum": gen.I(r.Range(1, 6))}}
		default:
			return map[string]any{"type": "number", "minimum": gen.I(r.Range(0, 4)), "maximum": gen.I(r.Range(3, 7))}
		}
	}
	list := func() []any {
		n := r.Range(2, 5)
		out := make([]any, n)
		for i := range out {
			out[i] = alt()
		}
		return out
	}
	kws := []string{"oneOf", "anyOf", "allOf"}
	s := map[string]any{kws[r.Intn(3)]: list()}
	if r.P(0.3) {
		s[kws[r.Intn(3)]] = list()
	}
	if r.P(0.25) {
		inner := map[string]any{kws[r.Intn(3)]: list()}
		l := list()
		l[r.Intn(len(l))] = inner
		s[kws[r.Intn(3)]] = l
	}
	if r.P(0.15) {
		s["not"] = map[string]any{kws[r.Intn(3)]: list()}
	}
	return s
}
