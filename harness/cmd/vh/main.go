// vh is the harness binary: `vh run -prop C01 -tier quick` (parent) and `vh worker ...` (children).
package main

import (
	"verif/harness/lib"
	_ "verif/harness/props"
)

func main() { lib.Main() }
